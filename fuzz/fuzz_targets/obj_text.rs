#![no_main]
//! C19 (text format).
use libfuzzer_sys::fuzz_target;
fuzz_target!(|data: &[u8]| {
    let s = String::from_utf8_lossy(data);
    if let Err(m) = lc3v::props::c19::oracle_text(&s) {
        panic!("C19 violation: {m}");
    }
});
