#![no_main]
//! C16: bytes -> entropy tape -> the same machine-state builder and operation mix as the proptest driver.
use libfuzzer_sys::fuzz_target;
fuzz_target!(|data: &[u8]| {
    let tape: Vec<u32> = data.chunks(4).map(|c| {
        let mut b = [0u8; 4];
        b[..c.len()].copy_from_slice(c);
        u32::from_le_bytes(b)
    }).collect();
    let (case, ops) = lc3v::props::c16::decode(&tape);
    let mut st = lc3v::driver::Stats::default();
    if let Err(m) = lc3v::props::c16::oracle(&case, &ops, &mut st) {
        panic!("C16 violation: {m}");
    }
});
