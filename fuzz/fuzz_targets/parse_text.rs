#![no_main]
//! C04: bytes -> lossy UTF-8 -> parse_ast; the semantic oracle (no panic, error spans inside the input) is lc3v's.
use libfuzzer_sys::fuzz_target;
fuzz_target!(|data: &[u8]| {
    let s = String::from_utf8_lossy(data);
    if let Err(m) = lc3v::props::c04::oracle(&s) {
        panic!("C04 violation: {m}");
    }
});
