#![no_main]
//! C19 (binary format): deserialize and, if accepted, re-serialize, link with the pool, load.
use libfuzzer_sys::fuzz_target;
fuzz_target!(|data: &[u8]| {
    if let Err(m) = lc3v::props::c19::oracle_binary(data) {
        panic!("C19 violation: {m}");
    }
});
