#!/usr/bin/env python3
"""Sensitivity protocol: applies hand-written realistic mutants to scratch copies of /repo, checks that the
mutant still compiles and passes the 35 pinned unit tests, runs the listed checks (quick) against it and
reports KILLED / SURVIVED.  Usage: tools/mutants.py [name-substring ...]   (results appended to mutants/results.jsonl)
"""
import json, os, shutil, subprocess, sys, tempfile, time

M = []
def m(name, ids, file, old, new):
    M.append(dict(name=name, ids=ids.split(), file=file, old=old, new=new))

# ---- encoder / assembler
m("enc-str-swap-fields", "C01 C06", "src/ast/sim.rs",
  "            SimInstr::STR(dr, br, off) => join_bits([\n                (self.opcode(),      12..16),\n                (dr.reg_no() as u16, 9..12),\n                (br.reg_no() as u16, 6..9),",
  "            SimInstr::STR(dr, br, off) => join_bits([\n                (self.opcode(),      12..16),\n                (br.reg_no() as u16, 9..12),\n                (dr.reg_no() as u16, 6..9),")
m("asm-offset-from-lc", "C01 C03", "src/asm.rs", "let sim = instr.into_sim_instr(lc.wrapping_add(1), &sym)?;", "let sim = instr.into_sim_instr(lc.wrapping_add(0), &sym)?;")
m("asm-putsp-alias", "C01 C07", "src/asm.rs", "AsmInstr::PUTSP             => Ok(SimInstr::TRAP(Offset::new_trunc(0x24))),", "AsmInstr::PUTSP             => Ok(SimInstr::TRAP(Offset::new_trunc(0x23))),")
m("asm-io-boundary-ge", "C02 C01", "src/asm.rs", "(false, Some(new_lc)) if new_lc > IO_START => Err(AsmErrKind::BlockInIO),", "(false, Some(new_lc)) if new_lc >= IO_START => Err(AsmErrKind::BlockInIO),")
m("asm-overlap-prev-only", "C02", "src/asm.rs", "                        block_map.range(block.start..).next(), // next block\n", "")
m("asm-fill-label-case", "C01 C03 C23", "src/asm.rs", "                                labels.lookup_label(&l.name)\n", "                                labels.label_map.get(&l.name).map(|d| d.addr)\n")
# ---- parser / lexer
m("parse-brzp-brnz-swapped", "C03", "src/parse.rs", "            Ident::BRZP => Ok(Self::BR(0b011, parser.parse()?)),", "            Ident::BRZP => Ok(Self::BR(0b110, parser.parse()?)),")
m("parse-colon-drops-label", "C03", "src/parse.rs", "                    parser.match_::<Colon>()?; // skip colon if it exists\n\n                    last_label_span.replace(span.clone());\n                    labels.push(label);", "                    let colon = parser.match_::<Colon>()?; // skip colon if it exists\n\n                    last_label_span.replace(span.clone());\n                    if colon.is_none() || labels.len() < 2 { labels.push(label); }")
m("lex-hex-signed-as-unsigned", "C05", "src/parse/lex.rs", "    i16::from_str_radix(hex, 16)\n", "    i16::from_str_radix(hex, 16).or_else(|e| u16::from_str_radix(hex.trim_start_matches('-'), 16).map(|v| (v as i16).wrapping_neg()).map_err(|_| e))\n")
# ---- decode / disassemble
m("decode-add-bit4-unchecked", "C06 C07", "src/ast/sim.rs", "            OP_ADD => {\n                let dr  = word.slice(9..12).interpret();\n                let sr1 = word.slice(6..9).interpret();\n                let sr2 = match word.slice(5..6) != 0 {\n                    false => {\n                        word.slice(3..5).assert_equals(0b00)?;", "            OP_ADD => {\n                let dr  = word.slice(9..12).interpret();\n                let sr1 = word.slice(6..9).interpret();\n                let sr2 = match word.slice(5..6) != 0 {\n                    false => {\n                        word.slice(3..4).assert_equals(0b0)?;")
m("disasm-x0200-boundary", "C07", "src/ast/asm.rs", "    let si = match word >= 0x0200 {", "    let si = match word > 0x0200 {")
# ---- simulator steps
m("sim-ldr-cc-from-address", "C08 C12", "src/sim.rs", "                let val = self.read_mem(ea, self.default_mem_ctx())?;\n                self.reg_file[dr].set_if_init(val, write_strict, SimErr::StrictRegSetUninit)?;\n                self.set_cc(val.get());\n            },\n            SimInstr::STR", "                let val = self.read_mem(ea, self.default_mem_ctx())?;\n                self.reg_file[dr].set_if_init(val, write_strict, SimErr::StrictRegSetUninit)?;\n                self.set_cc(ea);\n            },\n            SimInstr::STR")
m("sim-entry-push-order", "C08 C10 C09", "src/sim.rs", "        self.write_mem(sp.wrapping_sub(1), Word::new_init(old_psr), mctx)?;\n        self.write_mem(sp.wrapping_sub(2), Word::new_init(old_pc), mctx)?;", "        self.write_mem(sp.wrapping_sub(2), Word::new_init(old_psr), mctx)?;\n        self.write_mem(sp.wrapping_sub(1), Word::new_init(old_pc), mctx)?;")
m("sim-br-exact-cc", "C08", "src/sim.rs", "                if cc & self.psr.cc() != 0 {", "                if cc == self.psr.cc() || cc == 0b111 {")
m("sim-interrupt-priority-ge", "C08 C10", "src/sim.rs", "device::InterruptKind::Vectored { vect, priority } if priority > self.psr().priority() => {", "device::InterruptKind::Vectored { vect, priority } if priority >= self.psr().priority() => {")
m("sim-interrupt-priority-ge-both", "C08 C10", "src/sim.rs", None, None)  # handled specially below
m("sim-lea-sets-cc", "C08", "src/sim.rs", "                self.reg_file[dr].set(ea);\n            },\n            SimInstr::TRAP", "                self.reg_file[dr].set(ea);\n                self.set_cc(ea);\n            },\n            SimInstr::TRAP")
m("sim-trap-writes-r7", "C08 C11", "src/sim.rs", "        let ft = match priority.is_some() {", "        if priority.is_none() && vect < 0x100 { self.reg_file[R7].set(old_pc); }\n        let ft = match priority.is_some() {")
m("sim-user-range-inclusive", "C09 C08", "src/sim.rs", "    pub fn read_mem(&mut self, addr: u16, ctx: MemAccessCtx) -> Result<Word, SimErr> {\n        if !ctx.privileged && !(USER_START..IO_START).contains(&addr)", "    pub fn read_mem(&mut self, addr: u16, ctx: MemAccessCtx) -> Result<Word, SimErr> {\n        if !ctx.privileged && !(USER_START..=IO_START).contains(&addr)")
m("sim-write-check-dropped-below-user", "C09 C08", "src/sim.rs", "    pub fn write_mem(&mut self, addr: u16, data: Word, ctx: MemAccessCtx) -> Result<(), SimErr> {\n        if !ctx.privileged && !(USER_START..IO_START).contains(&addr)", "    pub fn write_mem(&mut self, addr: u16, data: Word, ctx: MemAccessCtx) -> Result<(), SimErr> {\n        if !ctx.privileged && !(0x2FF0..IO_START).contains(&addr)")
m("dev-min-priority-wins", "C10 C08", "src/sim/device.rs", "            .max_by_key(|i| i.priority().unwrap_or(0b1000))", "            .min_by_key(|i| i.priority().unwrap_or(0b1000))")
m("sim-entry-keeps-priority", "C08 C10", "src/sim.rs", "        if let Some(prio) = priority {\n            self.psr.set_priority(prio);\n        }", "        if let Some(prio) = priority {\n            if prio > 4 { self.psr.set_priority(prio); }\n        }")
m("sim-rti-no-swap-to-user", "C08 C10 C11", "src/sim.rs", "                    if !self.psr.privileged() {\n                        std::mem::swap(&mut self.saved_sp, &mut self.reg_file[R6]);\n                    }\n\n                    self.frame_stack.pop_frame();", "                    if !self.psr.privileged() && self.psr.priority() == 0 {\n                        std::mem::swap(&mut self.saved_sp, &mut self.reg_file[R6]);\n                    }\n\n                    self.frame_stack.pop_frame();")
# ---- OS
m("os-putsp-mask-7f", "C11", "src/os.asm", "    PUTSP_MASK: .fill x00FF", "    PUTSP_MASK: .fill x007F")
m("os-in-no-echo", "C11", "src/os.asm", "        GETC\n        PUTC\n        RTI\n    S_IN_PROMPT", "        GETC\n        RTI\n    S_IN_PROMPT")
m("os-puts-clobbers-r1", "C11 C12 C10", "src/os.asm", "        PUTS_END_LOOP:\n        LDR R1, R6, #0; pop R1\n        ADD R6, R6, #1\n", "        PUTS_END_LOOP:\n        ADD R6, R6, #1\n")
m("sim-invalid-format-to-acv", "C12 C08", "src/sim.rs", "            Err(StepBreak::Err(SimErr::InvalidInstrFormat)) => self.handle_interrupt(RealIntVect::IllegalOpcode as u16, None),", "            Err(StepBreak::Err(SimErr::InvalidInstrFormat)) => self.handle_interrupt(RealIntVect::AccessViolation as u16, None),")
# ---- run-style API
m("run-limit-le", "C13", "src/sim.rs", "        self.run_while(|sim| sim.instructions_run.wrapping_sub(i) < max_steps)", "        self.run_while(|sim| sim.instructions_run.wrapping_sub(i) <= max_steps)")
m("step-out-le", "C13", "src/sim.rs", "            self.run_while(|sim| first.take().is_some() || curr_frame <= sim.frame_stack.len())?;", "            self.run_while(|sim| first.take().is_some() || curr_frame < sim.frame_stack.len())?;")
m("run-breakpoint-before-step", "C13", "src/sim.rs", "            // Tripwire turned off:\n            if !tripwire(self) {\n                break Ok(PauseCondition::Tripwire);\n            }\n", "            // Tripwire turned off:\n            if !tripwire(self) {\n                break Ok(PauseCondition::Tripwire);\n            }\n            if self.instructions_run % 64 == 63 && self.breakpoints.iter().any(|bp| bp.check(self)) {\n                break Ok(PauseCondition::Breakpoint);\n            }\n")
# ---- words
m("word-and-init-or", "C15", "src/sim/mem.rs", "        let init = (linit & rinit) | (!ldata & linit) | (!rdata & rinit);", "        let init = (linit & rinit) | (!ldata & linit) | (!rdata | rinit);")
m("word-sub-shortcut-unchecked", "C15", "src/sim/mem.rs", "        if rdata == 0 && rinit == ALL_BITS { return self; }\n\n        let data = ldata.wrapping_sub(rdata);", "        if rdata == 0 { return self; }\n\n        let data = ldata.wrapping_sub(rdata);")
m("sim-ld-ea-unchecked-add", "C16 C08", "src/sim.rs", "            SimInstr::LD(dr, off) => {\n                let ea = self.pc.wrapping_add_signed(off.get());", "            SimInstr::LD(dr, off) => {\n                let ea = (self.pc as i32 + off.get() as i32) as u16;\n                let _ = self.pc.checked_add_signed(off.get()).expect(\"ea\");")
# ---- object formats
m("bin-external-flag-dropped", "C17", "src/asm/encoding.rs", "                bytes.push(u8::from(external));", "                bytes.push(u8::from(external && addr != 0));")
m("bin-src-start-u32", "C17", "src/asm/encoding.rs", "                bytes.extend(u64::to_le_bytes(src_start as u64));", "                bytes.extend(u64::to_le_bytes(src_start as u32 as u64 & 0xFFFF));")
m("text-uninit-read-as-zero", "C18", "src/asm/encoding.rs", "        TFMT_UNINIT => Some(None),", "        TFMT_UNINIT => Some(Some(0)),")
m("text-linker-info-dropped", "C18", "src/asm/encoding.rs", "                    rel_map.extend(table);", "                    rel_map.extend(table.into_iter().skip(1));")
m("text-hex2u16-slices", "C19", "src/asm/encoding.rs", "    match s.len() == 4 {\n        true => u16::from_str_radix(s, 16).ok(),\n        false => None\n    }", "    match s.len() >= 4 {\n        true => u16::from_str_radix(&s[..4], 16).ok(),\n        false => None\n    }")
m("bin-take-slice-no-guard", "C19", "src/asm/encoding.rs", "    if n > data.len() { return None; }", "    if n > data.len() + 1 { return None; }")
# ---- linking
m("link-keep-external-flag", "C20 C21", "src/asm.rs", "                                    e.insert(linked_sym);\n", "                                    if !a_sym_data.external { e.insert(linked_sym); }\n")
m("link-overlap-short-second-block", "C20", "src/asm.rs", "            ranges_overlap(ar, br)\n        }) {", "            ranges_overlap(ar, br) && b_bl.len() > 1\n        }) {")
m("load-external-flag-ignored", "C21", "src/asm.rs", "            .and_then(|s| s.label_map.iter().find(|(_, s)| s.external))", "            .and_then(|s| s.label_map.iter().find(|(k, s)| s.external && s.rel_map_has(k)))")
m("link-line-offset-minus-one", "C22", "src/asm.rs", "                .map(|(k, v)| (k.saturating_add(lines), v))", "                .map(|(k, v)| (k.saturating_add(lines - 1), v))")
m("rev-lookup-any-label", "C23", "src/asm.rs", "            .find(|&(_, sym_data)| sym_data.addr == addr)?;", "            .find(|&(_, sym_data)| sym_data.addr >= addr)?;")
m("line-from-first-label", "C24", "src/asm.rs", "                        let line_index = s.get_line(stmt.span.start);", "                        let line_index = s.get_line(stmt.labels.first().map(|l| l.span().start).unwrap_or(stmt.span.start));")
m("get-line-le", "C25 C24", "src/asm.rs", "        self.nl_indices.partition_point(|&start| start < index)", "        self.nl_indices.partition_point(|&start| start <= index)")
m("label-error-second-span-len", "C26", "src/asm.rs", "                    let span1 = e.get().span(e.key());\n                    let span2 = label.span();", "                    let span1 = e.get().span(e.key());\n                    let span2 = label.span().start .. label.span().end + 1;")
# ---- frames / observer
m("frame-pop-on-any-jmp", "C27 C08 C13", "src/sim.rs", "                if br.reg_no() == 7 {\n                    self.frame_stack.pop_frame();", "                if br.reg_no() >= 6 {\n                    self.frame_stack.pop_frame();")
m("frame-depth-wrapping", "C27 C08", "src/sim/frame.rs", "        self.frame_no = self.frame_no.saturating_sub(1);", "        self.frame_no = self.frame_no.wrapping_sub(1);")
m("frame-caller-off-by-one", "C27", "src/sim.rs", "        self.frame_stack.push_frame(self.prefetch_pc(), addr, FrameType::Subroutine, &self.reg_file, &self.mem);", "        self.frame_stack.push_frame(self.pc, addr, FrameType::Subroutine, &self.reg_file, &self.mem);")
m("observer-modified-after-write", "C28", "src/sim.rs", "                if self.mem[addr] != data {\n                    self.observer.update_mem_accesses(addr, AccessSet::MODIFIED);\n                }", "                if self.mem[addr].get() > data.get() {\n                    self.observer.update_mem_accesses(addr, AccessSet::MODIFIED);\n                }")
m("observer-vector-read-untracked", "C28", "src/sim.rs", "        let addr = self.read_mem(vect, self.default_mem_ctx())?\n            .get_if_init(self.flags.strict, SimErr::StrictSRAddrUninit)?;", "        let addr = self.read_mem(vect, MemAccessCtx { track_access: false, ..self.default_mem_ctx() })?\n            .get_if_init(self.flags.strict, SimErr::StrictSRAddrUninit)?;")
# ---- load / reset / seeds
m("load-resets-pc", "C29", "src/sim.rs", "        alloca.sort_by_key(|&(start, _)| start);\n", "        alloca.sort_by_key(|&(start, _)| start);\n        if self.os_loaded { self.pc = 0x3000; }\n")
m("load-blkw-not-cleared", "C29", "src/sim/mem.rs", "                if block_is_contiguous {\n                    for word in &mut mem[si..ei] {\n                        word.clear_init();\n                    }", "                if block_is_contiguous {\n                    for word in &mut mem[si..ei].iter_mut().skip(1) {\n                        word.clear_init();\n                    }")
m("reset-drops-ireg-map", "C30", "src/sim.rs", "        self.ireg_mmap = ireg_map;\n", "        if ireg_map.len() <= 3 { self.ireg_mmap = ireg_map; }\n")
m("reset-new-mcr", "C30", "src/sim.rs", "        *self = Simulator::new_with_mcr(flags, mcr);", "        *self = Simulator::new_with_mcr(flags, if self.instructions_run > 100 { Arc::default() } else { mcr });")
m("seeded-init-hashes-seed", "C31", "src/sim/mem.rs", "            MachineInitStrategy::Seeded { seed } => WCGenerator::Seeded(Box::new(StdRng::seed_from_u64(*seed))),", "            MachineInitStrategy::Seeded { seed } => WCGenerator::Seeded(Box::new(if *seed > u32::MAX as u64 { StdRng::from_os_rng() } else { StdRng::seed_from_u64(*seed) })),")
m("known-init-skips-registers", "C31", "src/sim.rs", "            reg_file: RegFile::new(&mut filler),", "            reg_file: RegFile::new(&mut flags.machine_init.generator_for_regs()),")
# ---- devices
m("remove-frees-keyboard-ports", "C32", "src/sim/device.rs", "            if !Self::FIXED_DEVS.contains(&dev_id) {", "            if dev_id != Self::NULL_DEV && dev_id != Self::DS_DEV {")
m("ireg-after-device", "C32 C08", "src/sim.rs", "                if let Some(ireg) = self.ireg_mmap.get(&addr) {\n                    let data = ireg.read(self);\n                    self.mem[addr].set(data);\n                } else if let Some(data) = self.device_handler.io_read(addr, ctx.io_effects) {\n                    self.mem[addr].set(data);\n                }", "                if let Some(data) = self.device_handler.io_read(addr, ctx.io_effects) {\n                    self.mem[addr].set(data);\n                } else if let Some(ireg) = self.ireg_mmap.get(&addr) {\n                    let data = ireg.read(self);\n                    self.mem[addr].set(data);\n                }")
m("add-device-any-port-valid", "C32", "src/sim/device.rs", "            .all(|m_dev_id| m_dev_id.is_some_and(|d| d == 0));", "            .all(|m_dev_id| m_dev_id.is_none_or(|d| d == 0));")
m("display-always-ready", "C33", "src/sim/device/display.rs", "    fn ready(&self) -> bool {\n        self.try_output().is_some()\n    }", "    fn ready(&self) -> bool {\n        true\n    }")
m("timer-reset-on-fire", "C34", "src/sim/device/timer.rs", "            1 => {\n                self.time = 0;", "            1 => {\n                self.time = self.try_generate_time();")
m("timer-disabled-still-counts", "C34", "src/sim/device/timer.rs", "        if !self.enabled { return None };\n", "        if !self.enabled { self.time = self.time.saturating_sub(1); return None };\n")
m("display-label-separator", "C36", "src/ast/asm.rs", "        for label in &self.labels {\n            label.fmt(f)?;\n            f.write_char(' ')?;\n        }", "        for label in &self.labels {\n            label.fmt(f)?;\n            if label.name.len() > 1 { f.write_char(' ')?; }\n        }")
m("display-fill-hex", "C36", "src/ast/asm.rs", "            Self::Fill(val)    => write!(f, \".fill {val}\"),", "            Self::Fill(PCOffset::Offset(o)) if o.get() > 0x7FFF => write!(f, \".fill #{}\", o.get() as i16 as i32 - 1),\n            Self::Fill(val)    => write!(f, \".fill {val}\"),")

SPECIAL = {
  # needs two edits
  "sim-interrupt-priority-ge-both": [("src/sim.rs", "device::InterruptKind::Vectored { vect, priority } if priority > self.psr().priority() => {", "device::InterruptKind::Vectored { vect, priority } if priority >= self.psr().priority() => {"),
                                      ("src/sim.rs", "        if priority.is_some_and(|prio| prio <= self.psr.priority()) { return Ok(()) };", "        if priority.is_some_and(|prio| prio < self.psr.priority()) { return Ok(()) };")],
  "load-external-flag-ignored": [("src/asm.rs", "            .and_then(|s| s.label_map.iter().find(|(_, s)| s.external))", "            .and_then(|s| s.label_map.iter().find(|(_, s)| s.external && s.addr != 0))")],
  "known-init-skips-registers": [("src/sim.rs", "            reg_file: RegFile::new(&mut filler),", "            reg_file: RegFile::new(&mut ())  ,")],
}

def run(cmd, cwd=None, env=None, timeout=3600):
    p = subprocess.run(cmd, shell=True, cwd=cwd, env=env, capture_output=True, text=True, timeout=timeout)
    return p.returncode, p.stdout + p.stderr

def main():
    want = sys.argv[1:]
    todo = [x for x in M if not want or any(w in x["name"] for w in want)]
    base = tempfile.mkdtemp(prefix="lc3v-mut-", dir="/tmp")
    vsnap = os.path.join(base, "verif")
    run(f"rsync -a --exclude target --exclude .git --exclude fuzz/scratch /verif/ {vsnap}/")
    target = os.path.join(base, "target")
    os.makedirs("/verif/mutants", exist_ok=True)
    for mu in todo:
        name = mu["name"]
        scratch = os.path.join(base, "repo")
        shutil.rmtree(scratch, ignore_errors=True)
        run(f"rsync -a --exclude target --exclude .git /repo/ {scratch}/")
        edits = SPECIAL.get(name) or [(mu["file"], mu["old"], mu["new"])]
        ok = True
        for (f, old, new) in edits:
            p = os.path.join(scratch, f)
            s = open(p).read()
            if old is None or s.count(old) != 1:
                print(f"MUTANT {name}: edit anchor not found exactly once in {f} ({0 if old is None else s.count(old)})", flush=True)
                ok = False
                break
            open(p, "w").write(s.replace(old, new))
        if not ok:
            continue
        env = dict(os.environ, CARGO_NET_OFFLINE="true", CARGO_TARGET_DIR=os.path.join(base, "repo-target"))
        rc, out = run("cargo test --offline --lib -q 2>&1 | tail -3", cwd=scratch, env=env)
        if "test result: ok. 35 passed" not in out:
            print(f"MUTANT {name}: INVALID (does not compile or the pinned tests fail): {out.strip()[-200:]}", flush=True)
            continue
        res = {}
        env2 = dict(os.environ, LC3V_REPO=scratch, LC3V_TARGET_DIR=target, LC3V_OUT_DIR=os.path.join(base, "out"))
        for cid in mu["ids"]:
            rc, out = run(f"./check {cid} quick", cwd=vsnap, env=env2)
            msg = ""
            for line in out.splitlines():
                if line.strip().startswith("message:"):
                    msg = line.strip()[:220]
                    break
            res[cid] = {"rc": rc, "verdict": {0: "SURVIVED", 1: "KILLED"}.get(rc, "ERROR"), "message": msg if rc == 1 else out.strip()[-300:] if rc not in (0, 1) else ""}
            print(f"MUTANT {name} {cid}: {res[cid]['verdict']} {res[cid]['message'][:200]}", flush=True)
        with open("/verif/mutants/results.jsonl", "a") as fh:
            fh.write(json.dumps({"mutant": name, "file": edits[0][0], "edit": [{"old": e[1], "new": e[2]} for e in edits], "results": res, "at": time.strftime("%Y-%m-%dT%H:%M:%S")}) + "\n")
    shutil.rmtree(base, ignore_errors=True)

if __name__ == "__main__":
    main()
