#!/usr/bin/env python3
"""Regenerates /verif/MANIFEST.json from the table below (keeps it schema-valid)."""
import json, os, sys
HERE = os.path.dirname(os.path.dirname(os.path.abspath(__file__)))
props = [json.loads(l) for l in open(os.path.join(HERE, "properties.jsonl"))]

# id -> dict(technique, text, note, ref)
CLAIMED = {
 "C35": dict(
    technique="exhaustive enumeration against an arithmetic oracle (property-based, finite domain)",
    text="Every (N, signedness, value) triple - 16 x 2 x 65536 - is evaluated through Offset::new and Offset::new_trunc and compared with an i32 range/extension computation; the domain of the property is finite and is covered completely in both tiers.",
    note="Trusts rustc's i32 arithmetic and the const-generic instantiation for N=1..=16; N>16 is documented to panic and is outside the property.",
    ref="4/C35"),
}
WIP_REASON = "check not built yet in this session (work in progress; see DESIGN.md section 7 build order)"

checks = []
for p in props:
    pid = p["id"]
    if pid not in CLAIMED: continue
    c = CLAIMED[pid]
    checks.append({
        "property_id": pid,
        "quick_cmd": f"./check {pid} quick",
        "thorough_cmd": f"./check {pid} thorough",
        "evidence_file": f"/verif/evidence/{pid}.json",
        "replay_cmd_template": f"./check {pid} --replay {{path}}",
        "engine": "lc3v",
        "level_claimed": {"category": "exploration", "text": c["text"], "design_ref": c["ref"]},
        "level_note": c["note"],
        "technique": c["technique"],
    })
na = [{"property_id": p["id"], "reason": CLAIMED.get(p["id"], {}).get("na", WIP_REASON)} for p in props if p["id"] not in CLAIMED]
hooks_commits = [l.strip() for l in open(os.path.join(HERE, "tools", "hook_commits.txt")) if l.strip()] if os.path.exists(os.path.join(HERE, "tools", "hook_commits.txt")) else []
manifest = {
    "version": 1,
    "setup_cmd": "./check --setup",
    "hooks": {
        "guard": "endorpersand_lc3_ensemble_verif",
        "enable": "RUSTFLAGS / harness/.cargo/config.toml pass `--cfg endorpersand_lc3_ensemble_verif`; the harness crate depends on /repo by path, so every check rebuilds the library from the working tree with the hook compiled in",
        "baseline_off_cmd": "cd /repo && cargo test --workspace --no-fail-fast --offline",
        "source_commits": hooks_commits,
        "add_only": True,
    },
    "engines": [
        {"name": "lc3v", "path": "/verif/harness", "serves_properties": [c["property_id"] for c in checks],
         "kind_free_text": "Rust binary: proptest-driven entropy-tape generators, independent models (encoder, assembler, linker, LC-3 CPU, port table), exhaustive enumerators, shrinking to JSON replay files"},
    ],
    "checks": checks,
    "not_applicable": na,
    "notes": "Exit codes: 0 held, 1 violation (VIOLATION line), 2 infrastructure/invalid run. VERIF_SEED selects the PRNG seed of every proptest runner. Known findings: /verif/known_findings.json.",
}
json.dump(manifest, open(os.path.join(HERE, "MANIFEST.json"), "w"), indent=1)
print(f"MANIFEST.json: {len(checks)} checks, {len(na)} not_applicable")
