#!/usr/bin/env python3
"""Regenerates /verif/MANIFEST.json from the table below (keeps it schema-valid)."""
import json, os, sys
HERE = os.path.dirname(os.path.dirname(os.path.abspath(__file__)))
props = [json.loads(l) for l in open(os.path.join(HERE, "properties.jsonl"))]

# id -> dict(technique, text, note, ref)
CLAIMED = {
 "C01": dict(
    technique="property-based testing (proptest-driven grammar generator) against an independent two-pass assembler model + ISA encoder",
    text="Generated well-formed programs over the whole statement grammar (all opcodes, aliases, directives, label operands at the edge of every field's reach incl. wrap-around reach, blocks at x0000 / ending at xFE00 / touching, externals) are assembled with assemble and assemble_debug; the complete address->word|uninitialized map and the label table must equal those of a model that shares no code with the library. Exploration, not proof: thousands (quick) to 150k (thorough) distinct programs, shrunk to a minimal program on failure.",
    note="The statement list is built through the public AST constructors (parser not involved); the model (harness/src/model/asm.rs, isa.rs) is the trusted base; operands that do not fit a field cannot be constructed and are covered by C05 through the text path.",
    ref="4/C01"),
 "C02": dict(
    technique="property-based testing with fault injection; oracle = set of violated well-formedness conditions computed by an independent model",
    text="Well-formed generated programs receive 1-3 faults from a 22-entry catalogue (plus statement soup); the model computes the set V of violated conditions; assemble/assemble_debug must succeed iff V is empty, otherwise report a kind in V, and never panic. Every error kind and every exact-boundary layout (xFE00, xFE01, xFFFF, x10000, field reach +-1) is an essential class whose absence invalidates the run.",
    note="For multi-fault programs V may contain members derived after the first structural fault (these only make the check more lenient); single-fault programs give singleton V.",
    ref="4/C02"),
 "C03": dict(
    technique="property-based testing: model-to-text renderer with randomized surface syntax, round trip through parse_ast, plus metamorphic pairs",
    text="Statement lists are written as text with random case, spacing, tabs, comments, blank lines, CRLF, colons, labels on own lines, every numeric notation and string escape; parse_ast must return exactly the written statements with spans that cover the nucleus within its line and exact label spans; two independent renderings of an assemblable program must assemble to the same image and label addresses.",
    note="Identifiers whose Unicode upper-casing is a keyword and labels that lex as registers/hex literals are outside the generator's domain (documented in DESIGN 3.1).",
    ref="4/C03"),
 "C04": dict(
    technique="property-based testing / fuzzing of parse_ast with a no-panic + span-in-bounds oracle (proptest strings, token soup, mutated programs, targeted literals; libFuzzer in the thorough tier)",
    text="Arbitrary Unicode strings, token soup, character-level mutations of rendered programs and targeted escape/literal edge cases are parsed under catch_unwind; any unwind or an error whose span leaves the input is a violation.",
    note="Robustness only (no semantic oracle beyond span bounds).",
    ref="4/C04"),
 "C05": dict(
    technique="bounded-exhaustive enumeration of integer literals x notations x field contexts against interval arithmetic; proptest for huge literals",
    text="Every integer of the stated range (thorough: all of [-70000,140000]; quick: all values within 300 of each power of two and of the 16-bit limits plus a seeded stride sample) in every notation, alone and as operand of 16 statement templates, is accepted iff it fits and then denotes its value; registers 0..300 with leading zeros and 20-40 digit literals likewise.",
    note="Thorough tier is exhaustive over the property's stated integer range; notation surface (leading zeros, hex digit case) is sampled per value.",
    ref="4/C05"),
 "C06": dict(
    technique="exhaustive enumeration against an independent canonical decoder/encoder (property-based, finite domain)",
    text="All 65536 words and all ~45k representable instruction values are enumerated: decode must agree with an independent canonical decoder (including the error class), re-encoding gives the word back, and encode/decode of every instruction value round-trips and equals the ISA table encoder.",
    note="Independent decoder/encoder in harness/src/model/isa.rs is the trusted base.",
    ref="4/C06"),
 "C07": dict(
    technique="exhaustive round trip disassemble -> text -> parse -> assemble over all words at several origins",
    text="All 65536 words x 4 origins: the disassembled text must reassemble to exactly the word; '.fill' exactly for words below x0200 and non-canonical words; aliases printed by name.",
    note="Uses the library's parser and assembler for the way back (that is the property); canonicity from the independent decoder.",
    ref="4/C07"),
 "C08": dict(
    technique="differential (lock-step) property-based testing of Simulator::step_in against an independent reference LC-3 machine",
    text="Random machine states with instruction windows aimed at the protection and page boundaries (all flag combinations except strict, scheduled vectored interrupts, keyboard/display, extra internal-register mappings) and generated user programs on the real OS are stepped in lock step with a from-scratch reference machine; after every step result kind, all registers, PC, PSR, saved SP, counters, frames, devices and touched memory are compared, full memory at the end. Every opcode x outcome, trap/RTI/interrupt/exception-entry class is essential.",
    note="The reference machine (harness/src/model/cpu.rs) with its pinned interpretations R1-R11 is the trusted base; entries whose stack pushes hit a memory-mapped internal register are outside the modelled domain (counted inconclusive).",
    ref="3.2, 4/C08"),
 "C09": dict(
    technique="adversarial property-based testing with an invariant oracle (snapshot/diff of everything outside user space) and observer cross-check",
    text="User-mode states whose every addressing mode is aimed at boundary and I/O addresses; operand addresses are computed from the decoded word and a register snapshot; a rejected access must be an access/privilege violation with nothing changed (virtual) or a clean vectoring with only the two supervisor-stack words written (real); legal user steps must leave supervisor memory, the I/O page and both devices bit-identical. A quarter of the attacks run in strict mode on a fully initialized machine.",
    note="Operand computation is a 20-line function independent of the simulator and of the reference machine.",
    ref="4/C09"),
 "C10": dict(
    technique="bounded-exhaustive schedule enumeration + random schedules with entry-invariant and transparency (metamorphic) oracles",
    text="Every single interrupt placement (and all/sampled pairs) over the step boundaries of short generated programs, random schedules with keyboard and seeded timer interrupts on longer ones; entry checks (pending, priority strictly higher, highest pending, saved PC = next instruction, saved PSR, user SP saved) one handler calls a TRAP itself, another prints an empty string with PUTS (reentrancy of the OS routines) (only RTI may lower the priority level, checked at every step), and equality of final registers, PSR, user memory and output with the uninterrupted run.",
    note="Interrupt sources are harness devices (level-held); handlers are generated save/restore routines; timing = step boundaries because devices are polled once per step.",
    ref="4/C10, 6"),
 "C11": dict(
    technique="property-based testing against a contract model of the six OS traps",
    text="One trap per case with random registers, condition codes, keyboard queue and strings (empty, odd packed length, bytes x01-xFF, ending at xFDFF), real and virtual traps: exact display bytes, exactly one input byte consumed (also when the keyboard is empty at first: the routine must wait until a byte is typed), all other registers, PSR and user memory unchanged, PC after the TRAP; HALT stops the machine.",
    note="Contract written from the trap documentation (not from os.asm).",
    ref="4/C11"),
 "C12": dict(
    technique="differential property-based testing: the same generated program under virtual and real traps",
    text="Generated user programs (incl. faults raised while a subroutine frame is open and leaf subroutines that do not spill R7 around their I/O traps) ending in HALT or in one of six injected faults run under both settings from identical machines: halting programs give equal display, R0-R5 and user memory; faulting programs give the matching error (virtual) and the OS message after the same output, then halt (real). A fifth of the halting programs end in a TRAP through an unassigned vector (the OS's bad-trap routine) instead of HALT.",
    note="Expected OS messages are the documented strings.",
    ref="4/C12"),
 "C13": dict(
    technique="model-based testing of the run-style API against a reference loop driven only by step_in (twin simulators)",
    text="Random scripts of run/run_with_limit/run_while/step_over/step_out/step_in with breakpoint sets and an MCR-clearing tripwire; a twin simulator is driven by a reference loop implementing the documented stop conditions; states, counters and pause reasons must agree after every call, and the segmented execution must end like one unbroken run.",
    note="The twin uses the simulator's own step_in (C08 checks that); MCR clear accepts zero or one more instruction.",
    ref="4/C13"),
 "C14": dict(
    technique="metamorphic twin-run property testing (strict on/off from identical states)",
    text="Two simulators built from one generated state (uninitialised registers, .blkw block, jumps into OS memory and the I/O page) differ only in the strict flag and are stepped together; unless strict reports a Strict* error, results and complete states must be equal; on fully initialised machines a Strict* error is a violation. Registers and memory are compared with their initialization masks.",
    note="Compares values (not initialisation masks) of all 65536 words after every step.",
    ref="4/C14"),
 "C15": dict(
    technique="property-based testing of Word arithmetic through a cfg-guarded hook, oracle = concretisation of uninitialised bits",
    text="Operand pairs with structured and random initialisation masks; 11 operations x 68 concretisations of the uninitialised bits: every bit reported initialised must be constant; fully initialised operands give the fully initialised wrapping value.",
    note="Needs the hook Word::verif_parts/verif_from_parts (MANIFEST.hooks).",
    ref="4/C15"),
 "C16": dict(
    technique="fuzzing of simulator states and API call mixes with a no-panic oracle (proptest-driven; libFuzzer in the thorough tier)",
    text="Seeded full-memory machines with all flag combinations (incl. strict, real traps), PC on every page boundary and xFFFF, devices and internal-register mappings, then mixes of step_in/run_with_limit/step_over/step_out/run and prefetch_pc under catch_unwind.",
    note="Built with overflow checks on; a harness fuse device ends runaway runs with an external interrupt.",
    ref="4/C16"),
 "C27": dict(
    technique="differential (lock-step) property-based testing of the frame stack against the reference machine's frame model",
    text="Generated programs with nested JSR/JSRR, traps, top-level returns, interrupts and registered signatures (plus raw states, a third of them with a call gadget whose argument block reaches the top of memory) in lock step: depth (saturating) and, with debug frames, every frame's caller, callee, kind, frame pointer and argument values. In strict mode a RET whose jump is rejected must leave the frame depth unchanged (enumerated).",
    note="Frame model in harness/src/model/cpu.rs.",
    ref="4/C27"),
 "C28": dict(
    technique="differential (lock-step) property-based testing of the access observer against the reference machine's access sets",
    text="Per step READ and WRITTEN sets on non-I/O addresses must equal the reference machine's; changed writes must be MODIFIED; MODIFIED is a subset of WRITTEN; untracked host accesses leave no trace; half of the cases never empty the observer themselves (step_in's own clearing is what separates steps), and each case is also executed as one run_while call whose observer must hold the union of the steps' sets.",
    note="MODIFIED is checked as the property states it (changed => modified => written), because the simulator also counts a change of initialisation state as modification.",
    ref="4/C28"),
 "C29": dict(
    technique="property-based testing with a full before/after memory diff (values and init masks through the hook)",
    text="Generated object files loaded into fresh and used machines of every initialisation strategy: fresh machine holds the OS image and an initialised zero I/O page; loading sets exactly the file's words, clears the init mask of reserved words and changes nothing else, registers and PC included.",
    note="Expected image from the independent assembler model; OS image from the library's own OS object file.",
    ref="4/C29"),
 "C30": dict(
    technique="stateful property-based testing (random operation histories) with a fresh-simulator oracle",
    text="Histories of runs, steps, writes, flag flips, breakpoint edits, device attach/remove and internal-register mappings/unmappings (including the default PSR/MCR ports) followed by reset: state equals Simulator::new(same flags) word for word (values and masks), configuration (flags, breakpoints, MCR Arc, exactly the history's set of mappings, devices) is kept.",
    note="Deterministic strategies only (Known, Seeded), as the property states.",
    ref="4/C30"),
 "C31": dict(
    technique="property-based twin-run testing (two independently built simulators per configuration) plus a Known-fill invariant",
    text="Same program, seed and seeded timer on two simulators: per-step traces (PC, PSR, registers, counts, digest of all memory incl. init masks every 64 steps, output) must be identical, also when the history continues with (reset and) loading an object file with reserved words over the used machine and more steps; a third of the timers start with an exact count and are widened with set_range; Known{v} fills every register and every word outside OS image and I/O page with v.",
    note="OS image addresses are recognised as words that do not depend on the fill value.",
    ref="4/C31"),
 "C32": dict(
    technique="model-based stateful testing (bounded-exhaustive + random operation sequences) against a port-table model with recording devices",
    text="All sequences up to length 3/4 over a 15-op alphabet and random sequences up to 25 ops over add/remove/set_keyboard/set_display/mmap/munmap/read/write; dispatch order, add success condition, id allocation, port freeing, memory mirror and the complete device call log must equal the model.",
    note="Recording devices implement ExternalDevice in the harness.",
    ref="4/C32"),
 "C33": dict(
    technique="bounded-exhaustive and random schedule enumeration with the lock schedule owned by the checking thread",
    text="The harness holds the keyboard/display buffer lock during chosen steps of echo programs (all single and pairs of single-step holds for short inputs, random multi-step holds for long ones); every input byte must be received and every output byte displayed exactly once, in order. Holds covering the data access within the OS's window (<= 4 instructions) after a ready poll that found the lock free are a listed known finding and excluded while listed. Holds are placed at absolute steps and relative to the k-th poll of KBSR/DSR (staggered keyboard/display patterns).",
    note="Known finding C33/hold-on-data-access-after-ready-poll; real thread interleavings inside one try_write are not explored (they cannot change a try_* outcome beyond success/failure).",
    ref="4/C33, 6"),
 "C34": dict(
    technique="property-based testing of TimerDevice poll sequences against interval arithmetic, directly and inside a simulator",
    text="Exact counts and ranges, seeds, enable/disable toggles, resets and range changes (each followed by a restart, half of them while disabled) over long poll sequences: gaps within the range, first fire at most max+1 polls after enable/reset, disabled never fires, equal seeds equal sequences; one poll per simulator step (recording wrapper).",
    note="Ranges containing 0 are outside the property's domain.",
    ref="4/C34"),
 "C17": dict(
    technique="property-based round trip serialize->deserialize over generated and linked object files (binary format)",
    text="Object files assembled with/without debug symbols from generated programs (externals anywhere, .blkw, several/empty blocks, arbitrary source text) and links of 2-3 files are written with BinaryFormat and read back; the result must equal the original under the type's own PartialEq (image, labels, flags, relocation entries, line map, source).",
    note="Equality is the library's derived PartialEq on ObjectFile; a diff routine only explains mismatches.",
    ref="4/C17"),
 "C18": dict(
    technique="property-based round trip serialize->deserialize over generated and linked object files (text format)",
    text="Same object-file generator as C17, sources rich in quotes, backslashes, tabs, CRLF, control and non-ASCII characters, whitespace-only lines and missing final newline; TextFormat round trip must give an equal object file.",
    note="Equality is the library's derived PartialEq on ObjectFile.",
    ref="4/C18"),
 "C19": dict(
    technique="grammar-aware fuzzing (proptest-driven structured generators + mutations of valid serializations; libFuzzer in the thorough tier) with a no-panic oracle over deserialize/serialize/link/load",
    text="Structured binary and text object files with arbitrary field values, lying lengths, wrapping/overlapping blocks, huge line numbers, dangling relocation entries, bad escapes, 0-3 dividers, plus mutated valid serializations and random inputs; any unwind in deserialize, re-serialization, re-deserialization, link with 6 pool files (both orders) or load_obj_file is a violation.",
    note="Built with overflow checks on (as cargo test builds are), so arithmetic overflow counts as a panic; chunk order of valid serializations is canonicalized before mutation to keep runs reproducible.",
    ref="4/C19"),
 "C20": dict(
    technique="model-based property testing: all link orders and bracketings of generated file sets against a set-union link model",
    text="2-4 generated files with shared/conflicting/external labels and touching/overlapping blocks (address grid based at x0000, x3000 or xFD00, so that address 0 is a definition address; sometimes one label defined at the same address in two files) are linked in every order and bracketing (2/12/120 trees); success, image, labels, external flags and pending relocations (observed by linking a probe definer) must equal the model for every tree.",
    note="Pending relocations are observed behaviourally (probe file), not by parsing a serialization.",
    ref="4/C20"),
 "C21": dict(
    technique="property-based testing of load/link outcomes for files with external uses; known finding excluded by construction",
    text="Files with .external before/between/after the .fill uses: loading must fail with UnresolvedExternal; after linking a definer in either order the word holds the label address and loading succeeds; with a second user file of the same labels, six orders/bracketings of file, user and definer (users linked first must still fail to load; the complete link must hold every address). The no-debug-symbols variant is a listed known finding (assemble() drops the symbol table) and is excluded while listed; its witness is replayed every run.",
    note="Known finding C21/nodebug-external-dropped (API decision needed) - see known_findings.json.",
    ref="4/C21"),
 "C22": dict(
    technique="property-based testing of linked debug info over all link trees of 2-3 files",
    text="For every (line,address) of every input file the linked object's rev_lookup_line must read the same text; every label's source span must slice the combined source to a spelling of the label; all orders and bracketings. A quarter of the sets contain a file without any memory-occupying statement.",
    note="Texts compared through the library's own read_line on both sides (C25 checks read_line itself).",
    ref="4/C22"),
 "C23": dict(
    technique="property-based testing of symbol-table queries against the model label table",
    text="Generated programs with mixed-case labels, repeated labels, labels on .end and on .external lines inside a block, and externals; every label is queried in 5 spellings through lookup_label, get_label_source and rev_lookup_label, the listing is compared as a set, absent names/addresses must give None.",
    note="ASCII labels only (property scope); a label both declared external and defined at x0000 is not generated (flag unspecified).",
    ref="4/C23"),
 "C24": dict(
    technique="property-based testing of the line<->address map against the renderer's line layout and the model's statement addresses",
    text="Programs rendered with label-only lines, comments, CRLF, multi-word statements and .external inside/outside blocks; line_iter must equal the model map, be injective, and lookup_line/rev_lookup_line must be inverse on it and None elsewhere (all lines, all image addresses).",
    note="Line numbers come from the harness renderer (independent of SourceInfo).",
    ref="4/C24"),
 "C25": dict(
    technique="property-based testing of SourceInfo against split-on-newline arithmetic",
    text="Strings over an alphabet rich in LF/CRLF/CR/whitespace (space, tab, VT, FF, U+00A0, U+0085, U+2028, U+3000)/multi-byte characters; every line index up to count+2 and every character index up to len+10 is queried and compared with an arithmetic model.",
    note="Whitespace = Rust str::trim semantics (as the property says 'without surrounding whitespace').",
    ref="4/C25"),
 "C26": dict(
    technique="property-based testing with fault injection: span accessors of every assembler/linker error",
    text="The faulty programs of C02 (half of them rendered in a free layout: no final newline, CRLF, trailing blanks and comments) and failing links (file vs origin-shifted copy) produce errors whose span(), first() and iter() are exercised under catch_unwind; assembly spans must lie inside the source on char boundaries and, for label errors, cover a spelling of an offending label. One source in twelve is longer than 64 KiB.",
    note="Offending labels come from the independent assembler model.",
    ref="4/C26"),
 "C36": dict(
    technique="property-based round trip: parse -> Display -> parse on every statement of generated programs",
    text="Every statement parsed from generated free-form programs (strings restricted to the property's character set) is printed and reparsed; the result must be one statement with equal labels, kind and operand values.",
    note="Statements come from the library's parser (as the property states).",
    ref="4/C36"),
 "C35": dict(
    technique="exhaustive enumeration against an arithmetic oracle (property-based, finite domain)",
    text="Every (N, signedness, value) triple - 16 x 2 x 65536 - is evaluated through Offset::new and Offset::new_trunc and compared with an i32 range/extension computation; the domain of the property is finite and is covered completely in both tiers.",
    note="Trusts rustc's i32 arithmetic and the const-generic instantiation for N=1..=16; N>16 is documented to panic and is outside the property.",
    ref="4/C35"),
}
WIP_REASON = "check not built yet in this session (work in progress; see DESIGN.md section 7 build order)"

checks = []
for p in props:
    pid = p["id"]
    if pid not in CLAIMED: continue
    c = CLAIMED[pid]
    checks.append({
        "property_id": pid,
        "quick_cmd": f"./check {pid} quick",
        "thorough_cmd": f"./check {pid} thorough",
        "evidence_file": f"/verif/evidence/{pid}.json",
        "replay_cmd_template": f"./check {pid} --replay {{path}}",
        "engine": "lc3v",
        "level_claimed": {"category": "exploration", "text": c["text"], "design_ref": c["ref"]},
        "level_note": c["note"],
        "technique": c["technique"],
    })
na = [{"property_id": p["id"], "reason": CLAIMED.get(p["id"], {}).get("na", WIP_REASON)} for p in props if p["id"] not in CLAIMED]
hooks_commits = [l.strip() for l in open(os.path.join(HERE, "tools", "hook_commits.txt")) if l.strip()] if os.path.exists(os.path.join(HERE, "tools", "hook_commits.txt")) else []
manifest = {
    "version": 1,
    "setup_cmd": "./check --setup",
    "hooks": {
        "guard": "endorpersand_lc3_ensemble_verif",
        "enable": "RUSTFLAGS / harness/.cargo/config.toml pass `--cfg endorpersand_lc3_ensemble_verif`; the harness crate depends on /repo by path, so every check rebuilds the library from the working tree with the hook compiled in",
        "baseline_off_cmd": "cd /repo && cargo test --workspace --no-fail-fast --offline",
        "source_commits": hooks_commits,
        "add_only": True,
    },
    "engines": [
        {"name": "lc3v", "path": "/verif/harness", "serves_properties": [c["property_id"] for c in checks],
         "kind_free_text": "Rust binary: proptest-driven entropy-tape generators, independent models (encoder, assembler, linker, LC-3 CPU, port table), exhaustive enumerators, shrinking to JSON replay files"},
    ],
    "checks": checks,
    "not_applicable": na,
    "notes": "Exit codes: 0 held, 1 violation (VIOLATION line), 2 infrastructure/invalid run. VERIF_SEED selects the PRNG seed of every proptest runner. Known findings: /verif/known_findings.json.",
}
json.dump(manifest, open(os.path.join(HERE, "MANIFEST.json"), "w"), indent=1)
print(f"MANIFEST.json: {len(checks)} checks, {len(na)} not_applicable")
