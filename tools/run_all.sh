#!/bin/bash
# tools/run_all.sh [quick|thorough] [seed...]   - runs every check, prints one line per check and a summary
TIER="${1:-quick}"; shift
SEEDS="${*:-1}"
cd "$(dirname "$0")/.."
FAIL=0
for SEED in $SEEDS; do
  for ID in $(python3 -c "import json; print(' '.join(c['property_id'] for c in json.load(open('MANIFEST.json'))['checks']))"); do
    START=$(date +%s.%N)
    OUT=$(VERIF_SEED=$SEED ./check $ID $TIER 2>&1); RC=$?
    END=$(date +%s.%N)
    LINE=$(echo "$OUT" | grep -E "^$ID " | tail -1)
    printf "%s seed=%s rc=%d %5.1fs  %s\n" "$ID" "$SEED" "$RC" "$(echo "$END - $START" | bc)" "${LINE#* }"
    if [ $RC -ne 0 ]; then FAIL=1; echo "$OUT" | grep -E "VIOLATION|message|INVALID|WATCHDOG|BUILD" | head -5; fi
    echo "$OUT" | grep -E "^KNOWN-FINDING" | cut -c1-120
  done
done
exit $FAIL
