#!/bin/bash
# tools/seeded.sh <NAME> <dir-with patch.diff seeded_demo.rs meta.json> [check ids...]
# Confirms a seeded change independently (applies, builds, suite passes, demo fails with / passes without),
# runs the given checks (default: all) against a scratch worktree with the change, records everything in
# /verif/seeded/<NAME>/ and removes the scratch worktree.
set -u
NAME="$1"; SRC="$2"; shift 2
PROP="${NAME%%-*}"
IDS="${*:-$(python3 -c "import json; print(' '.join(c['property_id'] for c in json.load(open('/verif/MANIFEST.json'))['checks']))")}"
DEST=/verif/seeded/$NAME
mkdir -p "$DEST"
cp "$SRC/patch.diff" "$DEST/patch.diff"
cp "$SRC/seeded_demo.rs" "$DEST/seeded_demo.rs"
cp "$SRC/meta.json" "$DEST/agent_meta.json" 2>/dev/null || echo '{}' > "$DEST/agent_meta.json"
WT=/tmp/sv/$NAME
rm -rf "$WT"; git -C /repo worktree prune; git -C /repo worktree add -q --detach "$WT" HEAD || exit 2
cd "$WT"
mkdir -p tests; cp "$DEST/seeded_demo.rs" tests/seeded_demo.rs
export CARGO_NET_OFFLINE=true
BASE_DEMO=$(cargo test --offline --test seeded_demo 2>&1 | grep -E "^test result" | head -1)
git apply "$DEST/patch.diff" 2>"$DEST/apply.err" || { echo "SEEDED $NAME: patch does not apply"; cat "$DEST/apply.err"; cd /; git -C /repo worktree remove --force "$WT"; exit 2; }
rm -f "$DEST/apply.err"
SUITE=$(cargo test --offline --lib 2>&1 | grep -E "^test result" | head -1)
DOCT=$(cargo test --offline --doc 2>&1 | grep -E "^test result" | head -1)
PATCH_DEMO=$(cargo test --offline --test seeded_demo 2>&1 | grep -E "^test result" | head -1)
rm -f tests/seeded_demo.rs
echo "SEEDED $NAME: demo without patch: $BASE_DEMO"
echo "SEEDED $NAME: suite with patch:   $SUITE | doc: $DOCT"
echo "SEEDED $NAME: demo with patch:    $PATCH_DEMO"
CAUGHT=""; MISSED=""
export LC3V_REPO="$WT" LC3V_TARGET_DIR=/tmp/sv-target-$NAME LC3V_OUT_DIR="$WT/.out"
# the checks run from a snapshot of /verif, so that edits made to /verif meanwhile do not disturb them
VSNAP=/tmp/sv/verif-$NAME
rm -rf "$VSNAP"; mkdir -p "$VSNAP"; rsync -a --exclude target --exclude .git --exclude 'fuzz/scratch' /verif/ "$VSNAP"/
declare -A MSG
for ID in $IDS; do
    RES=$(cd "$VSNAP" && ./check "$ID" quick 2>&1); RC=$?
    if [ $RC -eq 1 ]; then CAUGHT="$CAUGHT $ID"; MSG[$ID]=$(echo "$RES" | grep -m1 'message:' | cut -c1-300);
    elif [ $RC -eq 0 ]; then MISSED="$MISSED $ID";
    else echo "SEEDED $NAME $ID: ERROR rc=$RC: $(echo "$RES" | tail -3)"; fi
done
echo "SEEDED $NAME: caught by:$CAUGHT"
for ID in $CAUGHT; do echo "   $ID ${MSG[$ID]}"; done
python3 - "$DEST" "$PROP" "$BASE_DEMO" "$SUITE" "$DOCT" "$PATCH_DEMO" "$CAUGHT" "$IDS" <<'PY'
import json,sys
dest,prop,base,suite,doct,pd,caught,ids=sys.argv[1:9]
am=json.load(open(dest+'/agent_meta.json'))
meta={"property":prop,"summary":am.get("summary"),"needs_to_manifest":am.get("needs_to_manifest"),"why_existing_tests_pass":am.get("why_existing_tests_pass"),
 "origin":"written by an independent sub-agent that saw only the property text and a scratch worktree of /repo",
 "confirmed":{"demo_without_patch":base,"existing_suite_with_patch":suite,"doctests_with_patch":doct,"demo_with_patch":pd},
 "what_was_run":"tools/seeded.sh: fresh worktree of /repo HEAD, demo copied to tests/, cargo test --offline (lib, doc, demo) before/after git apply; then ./check <ID> quick for the listed checks with LC3V_REPO pointing at the patched worktree",
 "checks_run":ids.split(),"caught_by":caught.split()}
json.dump(meta,open(dest+'/meta.json','w'),indent=1)
PY
rm -f "$DEST/agent_meta.json"
cd /; git -C /repo worktree remove --force "$WT"; rm -rf /tmp/sv-target-$NAME "$VSNAP"
