#!/usr/bin/env python3
"""Rewrites section 9 of DESIGN.md (between the markers) from seeded/*/meta.json and mutants/results.jsonl."""
import json, glob, os, re
HERE=os.path.dirname(os.path.dirname(os.path.abspath(__file__)))
rows=[]
for d in sorted(glob.glob(os.path.join(HERE,'seeded','*'))):
    mp=os.path.join(d,'meta.json')
    if not os.path.exists(mp): continue
    m=json.load(open(mp))
    name=os.path.basename(d)
    summ=(m.get('summary') or '').replace('|','/').replace('\n',' ')
    if len(summ)>230: summ=summ[:227]+'...'
    caught=m.get('caught_by',[])
    target=m['property']
    rows.append((name,target,summ,' '.join(caught), 'yes' if target in caught else 'NO'))
out=[]
out.append("### 9.1 Seeded changes written by independent sub-agents\n")
out.append("Each agent saw only the text of one property and a scratch worktree of `/repo` (nothing from `/verif`). Every change below was confirmed independently by `tools/seeded2.sh`: the patch applies to `/repo` HEAD, the crate builds, the 35 unit tests and 29 doc tests pass, the agent's demonstration test passes without the patch and fails with it. Then every check's quick tier was run against a scratch worktree with the patch (`LC3V_REPO`); for round 5 (`-5`), for lack of time, only the target check and two or more checks of the same subsystem were run (`checks_run` in each `meta.json` lists them).\n")
out.append("| seed | property | change (agent's summary) | caught by (quick tier) | target check catches it |\n|---|---|---|---|---|")
for r in rows:
    out.append(f"| {r[0]} | {r[1]} | {r[2]} | {r[3]} | {r[4]} |")
out.append("")
# mutants
res={}
p=os.path.join(HERE,'mutants','results.jsonl')
if os.path.exists(p):
    for l in open(p):
        j=json.loads(l); res[j['mutant']]=j   # last run wins
out.append("### 9.2 Hand-written mutants (`tools/mutants.py`)\n")
out.append("Realistic one- or two-line edits (wrong comparison operator, swapped fields, missed case, state not restored, ...). A mutant is used only if it compiles and the 35 pinned unit tests still pass. `KILLED` = the check's quick tier exits 1 with a shrunk replay; `SURVIVED` entries are explained below the table.\n")
out.append("| mutant | file | verdicts |\n|---|---|---|")
for name,j in sorted(res.items()):
    v=', '.join(f"{k}: {x['verdict']}" for k,x in j['results'].items())
    out.append(f"| {name} | {j['file']} | {v} |")
out.append("")
# mechanical sweep
ap=os.path.join(HERE,'mutants','auto_results.jsonl')
if os.path.exists(ap):
    from collections import Counter
    rs={}
    for l in open(ap):
        j=json.loads(l); rs[j['id']]=j
    an={}
    anp=os.path.join(HERE,'mutants','auto_analysis.json')
    if os.path.exists(anp): an=json.load(open(anp))
    st=Counter(r['status'] for r in rs.values())
    valid=[r for r in rs.values() if r['status'] in ('KILLED','KILLED-EXIT2','SURVIVED')]
    killed=[r for r in valid if r['status']!='SURVIVED']
    out.append("### 9.2b Mechanical sweep (`tools/automutate.py`)\n")
    out.append("One-token mutants sampled from every non-test, non-cosmetic line of `/repo/src` (comparison and boolean operators, off-by-one, wrapping add/sub, is_some/is_none, min/max, inclusive/exclusive ranges, register and address-range constants; for `os.asm`: branch conditions, immediates, registers, addressing mode), at most one per source line, fixed sampling seed. A mutant counts only if the crate still compiles and the 35 pinned unit tests pass. The quick tiers are then run with `LC3V_REPO` pointing at the mutated copy, most relevant checks first, stopping at the first check that reports a violation; a survivor has passed all 36 quick tiers.\n")
    out.append(f"Sampled and run: {len(rs)}; did not compile: {st.get('NOCOMPILE',0)}; rejected by the pinned unit tests: {st.get('PINNED-TESTS-FAIL',0)}; **valid: {len(valid)}, detected: {len(killed)}** (of these {st.get('KILLED-EXIT2',0)} as an invalid run, exit 2), **survived: {st.get('SURVIVED',0)}**.\n")
    kb=Counter(r.get('killed_by') for r in killed)
    out.append("Detected by (first check in the order tried): "+', '.join(f"{k} {v}" for k,v in sorted(kb.items()))+".\n")
    verd=Counter((an.get(r['id']) or ['unanalysed'])[0] for r in valid if r['status']=='SURVIVED')
    out.append("Survivors by verdict: "+', '.join(f"{k} {v}" for k,v in sorted(verd.items()))+". `equivalent` = no observable difference; `cosmetic` = column padding of the text format; `out-of-scope`/`out-of-domain` = observable, but no listed property speaks about it (each entry says why); `gap-closed` = a listed property does cover it and a check was extended (the extension is named).\n")
    out.append("| mutant | where | change | verdict | why |\n|---|---|---|---|---|")
    for r in sorted(valid,key=lambda r:r['id']):
        if r['status']=='SURVIVED' or r['status']=='KILLED-EXIT2':
            a=an.get(r['id']) or ['unanalysed','']
            out.append(f"| {r['id']} | {r['file']}:{r['line']} | {r['op']}: `{r['before'][:70].replace('|','/')}` | {a[0]} | {a[1].replace('|','/')} |")
    out.append("")
text='\n'.join(out)
dp=os.path.join(HERE,'DESIGN.md')
s=open(dp).read()
a='<!-- BEGIN GENERATED TABLES -->'; b='<!-- END GENERATED TABLES -->'
if a in s:
    s=s[:s.index(a)+len(a)]+'\n'+text+'\n'+s[s.index(b):]
    open(dp,'w').write(s)
    print('tables updated:',len(rows),'seeds,',len(res),'mutants')
else:
    print('markers missing')
