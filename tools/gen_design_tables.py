#!/usr/bin/env python3
"""Rewrites section 9 of DESIGN.md (between the markers) from seeded/*/meta.json and mutants/results.jsonl."""
import json, glob, os, re
HERE=os.path.dirname(os.path.dirname(os.path.abspath(__file__)))
rows=[]
for d in sorted(glob.glob(os.path.join(HERE,'seeded','*'))):
    mp=os.path.join(d,'meta.json')
    if not os.path.exists(mp): continue
    m=json.load(open(mp))
    name=os.path.basename(d)
    summ=(m.get('summary') or '').replace('|','/').replace('\n',' ')
    if len(summ)>230: summ=summ[:227]+'...'
    caught=m.get('caught_by',[])
    target=m['property']
    rows.append((name,target,summ,' '.join(caught), 'yes' if target in caught else 'NO'))
out=[]
out.append("### 9.1 Seeded changes written by independent sub-agents\n")
out.append("Each agent saw only the text of one property and a scratch worktree of `/repo` (nothing from `/verif`). Every change below was confirmed independently by `tools/seeded2.sh`: the patch applies to `/repo` HEAD, the crate builds, the 35 unit tests and 29 doc tests pass, the agent's demonstration test passes without the patch and fails with it. Then every check's quick tier was run against a scratch worktree with the patch (`LC3V_REPO`).\n")
out.append("| seed | property | change (agent's summary) | caught by (quick tier) | target check catches it |\n|---|---|---|---|---|")
for r in rows:
    out.append(f"| {r[0]} | {r[1]} | {r[2]} | {r[3]} | {r[4]} |")
out.append("")
# mutants
res={}
p=os.path.join(HERE,'mutants','results.jsonl')
if os.path.exists(p):
    for l in open(p):
        j=json.loads(l); res[j['mutant']]=j   # last run wins
out.append("### 9.2 Hand-written mutants (`tools/mutants.py`)\n")
out.append("Realistic one- or two-line edits (wrong comparison operator, swapped fields, missed case, state not restored, ...). A mutant is used only if it compiles and the 35 pinned unit tests still pass. `KILLED` = the check's quick tier exits 1 with a shrunk replay; `SURVIVED` entries are explained below the table.\n")
out.append("| mutant | file | verdicts |\n|---|---|---|")
for name,j in sorted(res.items()):
    v=', '.join(f"{k}: {x['verdict']}" for k,x in j['results'].items())
    out.append(f"| {name} | {j['file']} | {v} |")
out.append("")
text='\n'.join(out)
dp=os.path.join(HERE,'DESIGN.md')
s=open(dp).read()
a='<!-- BEGIN GENERATED TABLES -->'; b='<!-- END GENERATED TABLES -->'
if a in s:
    s=s[:s.index(a)+len(a)]+'\n'+text+'\n'+s[s.index(b):]
    open(dp,'w').write(s)
    print('tables updated:',len(rows),'seeds,',len(res),'mutants')
else:
    print('markers missing')
