#!/usr/bin/env python3
"""Mechanical mutation sweep over /repo/src (sensitivity measurement, not part of any check).

  tools/automutate.py list [N] [SEED]          - print the sampled mutants
  tools/automutate.py run LANE NLANES [N] [SEED] - run every NLANES-th sampled mutant in scratch lane LANE

For each sampled mutant: copy /repo to a scratch directory outside /repo and /verif, apply the one-token
change, run the pinned unit tests (`cargo test --lib --offline`); mutants that do not compile or that the
existing tests already reject are recorded and skipped.  The others are run against the quick tiers
(`./check <ID> quick` with LC3V_REPO pointing at the scratch copy), most relevant checks first, stopping at
the first check that reports a violation.  Results are appended to /verif/mutants/auto_results.jsonl.
Scratch directories and their build output are removed at the end.
"""
import json, os, random, re, shutil, subprocess, sys, time

REPO = "/repo"
OUT = "/verif/mutants/auto_results.jsonl"
SCRATCH = "/tmp/lc3v-am"

# (regex, replacement, name) - applied to one occurrence on one line
OPS = [
    (r" <= ", " < ", "le->lt"),
    (r" >= ", " > ", "ge->gt"),
    (r"(?<=[\w\)\]]) < (?=[\w\(])", " <= ", "lt->le"),
    (r"(?<=[\w\)\]]) > (?=[\w\(])", " >= ", "gt->ge"),
    (r" == ", " != ", "eq->ne"),
    (r" != ", " == ", "ne->eq"),
    (r" && ", " || ", "and->or"),
    (r" \|\| ", " && ", "or->and"),
    (r"\btrue\b", "false", "true->false"),
    (r"\bfalse\b", "true", "false->true"),
    (r" \+ 1\b", " + 2", "+1->+2"),
    (r" \+ 1\b", "", "+1->+0"),
    (r" - 1\b", "", "-1->-0"),
    (r"\bwrapping_add\b", "wrapping_sub", "wadd->wsub"),
    (r"\bwrapping_sub\b", "wrapping_add", "wsub->wadd"),
    (r"\bchecked_add\b", "checked_sub", "cadd->csub"),
    (r"\.is_some\(\)", ".is_none()", "some->none"),
    (r"\.is_none\(\)", ".is_some()", "none->some"),
    (r"\.is_ok\(\)", ".is_err()", "ok->err"),
    (r"\.is_empty\(\)", ".len() == 1", "empty->len1"),
    (r"\bif !", "if ", "drop-not"),
    (r"\.min\(", ".max(", "min->max"),
    (r"\.max\(", ".min(", "max->min"),
    (r"\.\.=", "..", "incl->excl"),
    (r" & ", " | ", "bitand->bitor"),
    (r" \| ", " & ", "bitor->bitand"),
    (r" << ", " >> ", "shl->shr"),
    (r"\bR6\b", "R7", "R6->R7"),
    (r"0x100\b", "0x101", "x100->x101"),
    (r"\bIO_START\b", "USER_START", "io->user"),
    (r"\bUSER_START\b", "IO_START", "user->io"),
    (r"\.first\(\)", ".last()", "first->last"),
    (r"\.last\(\)", ".first()", "last->first"),
    (r"\.rev\(\)", "", "drop-rev"),
    (r"\bcontinue;", "break;", "continue->break"),
    (r"\.then_some\(", ".then_some(!", None),  # placeholder never used (name None)
]
OPS = [o for o in OPS if o[2]]

ORDER = {
    "src/parse.rs": "C03 C04 C05 C36 C01 C02 C35 C26",
    "src/parse/lex.rs": "C04 C05 C03 C36 C01 C35",
    "src/asm.rs": "C01 C02 C20 C21 C22 C23 C24 C25 C26 C17 C18 C29 C19",
    "src/asm/encoding.rs": "C17 C18 C19",
    "src/ast.rs": "C35 C05 C06 C07 C36 C01",
    "src/ast/asm.rs": "C36 C01 C03 C07",
    "src/ast/sim.rs": "C06 C07 C08 C01",
    "src/sim.rs": "C08 C09 C12 C13 C14 C10 C11 C27 C28 C30 C32 C16 C29 C31",
    "src/sim/mem.rs": "C15 C29 C08 C14 C30 C31 C09",
    "src/sim/device.rs": "C32 C33 C10 C11 C30",
    "src/sim/device/keyboard.rs": "C33 C11 C32 C10",
    "src/sim/device/display.rs": "C33 C11 C32",
    "src/sim/device/timer.rs": "C34 C31 C10",
    "src/sim/frame.rs": "C27 C13 C08 C16",
    "src/sim/observer.rs": "C28",
    "src/sim/debug.rs": "C13",
    "src/err.rs": "C26 C04",
}
ORDER["src/os.asm"] = "C11 C12 C33 C10 C08 C13 C09 C27 C28 C31"
ALL = [f"C{i:02d}" for i in range(1, 37)]

# one-token changes of the OS image (assembly)
OS_OPS = [
    (r"\bBRzp\b", "BRp", "BRzp->BRp"),
    (r"\bBRzp\b", "BRz", "BRzp->BRz"),
    (r"\bBRnp\b", "BRp", "BRnp->BRp"),
    (r"\bBRz\b", "BRnz", "BRz->BRnz"),
    (r"\bBRn\b", "BRnz", "BRn->BRnz"),
    (r"\bBRp\b", "BRzp", "BRp->BRzp"),
    (r"\bBRnz\b", "BRn", "BRnz->BRn"),
    (r"#-1\b", "#-2", "imm-1->-2"),
    (r"#1\b", "#2", "imm1->2"),
    (r"#0\b", "#1", "imm0->1"),
    (r"\bR0\b", "R1", "R0->R1"),
    (r"\bR1\b", "R0", "R1->R0"),
    (r"\bR6\b", "R5", "R6->R5"),
    (r"\bLDR\b", "LDI", None),
    (r"\bSTI\b", "ST", "STI->ST"),
    (r"\bLDI\b", "LD", "LDI->LD"),
    (r"\bADD\b", "AND", "ADD->AND"),
    (r"\bRTI\b", "RET", "RTI->RET"),
]
OS_OPS = [o for o in OS_OPS if o[2]]


def os_candidates():
    cands = []
    rel = "src/os.asm"
    lines = open(os.path.join(REPO, rel)).read().split("\n")
    for ln, line in enumerate(lines):
        code = line.split(";")[0]
        if not code.strip() or code.strip().startswith("."):
            continue
        for rx, rep, name in OS_OPS:
            for k, m in enumerate(re.finditer(rx, code)):
                cands.append(dict(file=rel, line=ln + 1, op=name, occ=k, start=m.start(), end=m.end(), rep=rep, before=line.strip()))
    return cands


def candidates():
    cands = []
    for root, _, files in os.walk(os.path.join(REPO, "src")):
        for fn in sorted(files):
            if not fn.endswith(".rs"):
                continue
            path = os.path.join(root, fn)
            rel = os.path.relpath(path, REPO)
            lines = open(path).read().split("\n")
            in_tests = False
            in_fmt = 0
            for ln, line in enumerate(lines):
                s = line.strip()
                if s.startswith("#[cfg(test)]"):
                    in_tests = True
                if in_tests:
                    continue
                if s.startswith("//") or s.startswith("#[") or s.startswith("use ") or "assert" in s or s.startswith("*") or s.startswith("/*"):
                    continue
                # cosmetics: Debug/Display of errors and devices (statement Display in ast/asm.rs is in scope: C36)
                if rel != "src/ast/asm.rs" and re.search(r"write!|f\.write_|\.fmt\(f\)|fn help|fn fmt|debug_struct|Cow::", s):
                    continue
                code = line.split("//")[0] if '"' not in line else line
                for rx, rep, name in OPS:
                    for k, m in enumerate(re.finditer(rx, code)):
                        cands.append(dict(file=rel, line=ln + 1, op=name, occ=k, start=m.start(), end=m.end(), rep=rep, before=line.strip()))
    return cands


def sample(n, seed):
    c = os_candidates() if seed >= 100 else candidates()
    rnd = random.Random(seed)
    # stratify: at most one mutant per (file, line) and shuffle
    rnd.shuffle(c)
    seen = set()
    out = []
    for x in c:
        key = (x["file"], x["line"])
        if key in seen:
            continue
        seen.add(key)
        out.append(x)
    out = out[:n]
    for i, x in enumerate(out):
        x["id"] = f"am{seed}-{i:03d}"
    return out, len(c)


def sh(cmd, cwd=None, env=None, timeout=3600):
    e = dict(os.environ)
    e["CARGO_NET_OFFLINE"] = "true"
    if env:
        e.update(env)
    # own process group, so that a timeout also ends grandchildren (a mutant can make a unit test spin forever)
    p = subprocess.Popen(cmd, shell=True, cwd=cwd, env=e, stdout=subprocess.PIPE, stderr=subprocess.STDOUT, text=True, start_new_session=True)
    try:
        out, _ = p.communicate(timeout=timeout)
        return p.returncode, out
    except subprocess.TimeoutExpired:
        import signal
        try:
            os.killpg(p.pid, signal.SIGKILL)
        except ProcessLookupError:
            pass
        p.communicate()
        return 124, "timeout"


def run_lane(lane, nlanes, n, seed):
    muts, total = sample(n, seed)
    done = set()
    if os.path.exists(OUT):
        for l in open(OUT):
            try:
                done.add(json.loads(l)["id"])
            except Exception:
                pass
    base = f"{SCRATCH}/lane{lane}"
    repo = f"{base}/repo"
    os.makedirs(base, exist_ok=True)
    for i, m in enumerate(muts):
        if i % nlanes != lane % nlanes or m["id"] in done:
            continue
        sh(f"rsync -a --delete --exclude target --exclude .git {REPO}/ {repo}/")
        path = os.path.join(repo, m["file"])
        lines = open(path).read().split("\n")
        line = lines[m["line"] - 1]
        new = line[: m["start"]] + m["rep"] + line[m["end"]:]
        lines[m["line"] - 1] = new
        open(path, "w").write("\n".join(lines))
        rec = dict(id=m["id"], file=m["file"], line=m["line"], op=m["op"], before=m["before"], after=new.strip())
        t0 = time.time()
        rc, out = sh("cargo test --lib --offline 2>&1 | tail -30", cwd=repo, env={"CARGO_TARGET_DIR": f"{base}/repo-target"}, timeout=900)
        if rc == 124:
            rec["status"] = "PINNED-TESTS-FAIL"
            rec["message"] = "unit tests did not finish within 15 minutes"
        elif "error" in out and "test result" not in out:
            rec["status"] = "NOCOMPILE"
        elif "test result: ok" not in out:
            rec["status"] = "PINNED-TESTS-FAIL"
        else:
            order = ORDER.get(m["file"], "").split()
            order += [c for c in ALL if c not in order]
            rec["status"] = "SURVIVED"
            rec["checks_run"] = []
            for cid in order:
                rc, o = sh(f"./check {cid} quick", cwd="/verif", env={"LC3V_REPO": repo, "LC3V_TARGET_DIR": f"{base}/harness-target", "LC3V_OUT_DIR": f"{base}/out", "LC3V_SKIP_FUZZ_BUILD": "1"}, timeout=2400)
                rec["checks_run"].append(cid)
                if rc == 1 and "VIOLATION" in o:
                    rec["status"] = "KILLED"
                    rec["killed_by"] = cid
                    msg = [l for l in o.split("\n") if "message:" in l]
                    rec["message"] = (msg[0].strip()[:300] if msg else "")
                    break
                if rc not in (0, 1):
                    tail = o.strip().split("\n")[-3:]
                    if any("error" in l for l in o.split("\n")[:400]) and "Compiling" in o and cid == order[0]:
                        rec["status"] = "HARNESS-NOCOMPILE"
                        rec["message"] = " | ".join(tail)[:300]
                        break
                    # exit 2: invalid run (e.g. essential class missing, watchdog) - that is a detection of its own kind
                    rec["status"] = "KILLED-EXIT2"
                    rec["killed_by"] = cid
                    rec["message"] = " | ".join(tail)[:300]
                    break
        rec["secs"] = round(time.time() - t0, 1)
        with open(OUT, "a") as f:
            f.write(json.dumps(rec) + "\n")
        print(f"{rec['id']} {rec['file']}:{rec['line']} {rec['op']} -> {rec['status']} {rec.get('killed_by','')} ({rec['secs']}s)", flush=True)
    shutil.rmtree(base, ignore_errors=True)


if __name__ == "__main__":
    cmd = sys.argv[1]
    if cmd == "list":
        n = int(sys.argv[2]) if len(sys.argv) > 2 else 300
        seed = int(sys.argv[3]) if len(sys.argv) > 3 else 1
        muts, total = sample(n, seed)
        print(f"{total} candidate sites, {len(muts)} sampled")
        from collections import Counter
        print(Counter(m["file"] for m in muts))
        for m in muts[:15]:
            print(m["id"], m["file"], m["line"], m["op"], "|", m["before"][:100])
    else:
        lane, nlanes = int(sys.argv[2]), int(sys.argv[3])
        n = int(sys.argv[4]) if len(sys.argv) > 4 else 300
        seed = int(sys.argv[5]) if len(sys.argv) > 5 else 1
        run_lane(lane, nlanes, n, seed)
