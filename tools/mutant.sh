#!/bin/bash
# Sensitivity protocol: tools/mutant.sh <name> <ID>[,<ID>...] <<'PATCH' ... (sed/python edit script on stdin, run inside the scratch copy)
# Copies /repo (without build output) to a scratch dir, runs the edit script there, checks that it
# still builds, runs the given checks (quick) against the copy, prints a one-line verdict per check,
# and removes the scratch dir (with its build output).
set -u
NAME="$1"; IDS="$2"
SCRATCH="${LC3V_SCRATCH:-/tmp/lc3v-mut}/$NAME"
rm -rf "$SCRATCH"; mkdir -p "$SCRATCH"
rsync -a --exclude target --exclude .git /repo/ "$SCRATCH/"
( cd "$SCRATCH" && bash -e /dev/stdin ) || { echo "MUTANT $NAME: edit script failed"; rm -rf "$SCRATCH"; exit 2; }
if diff -rq --exclude target --exclude .git --exclude .lc3v-target /repo "$SCRATCH" >/dev/null; then echo "MUTANT $NAME: edit changed nothing"; rm -rf "$SCRATCH"; exit 2; fi
export LC3V_REPO="$SCRATCH"
export LC3V_TARGET_DIR="${LC3V_MUT_TARGET:-/tmp/lc3v-mut-target}"
export LC3V_OUT_DIR="$SCRATCH/.out"
OUT=0
for ID in ${IDS//,/ }; do
    RES=$(cd /verif && ./check "$ID" quick 2>&1); RC=$?
    case $RC in
        1) echo "MUTANT $NAME $ID: KILLED  ($(echo "$RES" | grep -m1 'message:' | cut -c1-200))" ;;
        0) echo "MUTANT $NAME $ID: SURVIVED"; OUT=1 ;;
        *) echo "MUTANT $NAME $ID: ERROR rc=$RC $(echo "$RES" | tail -5)"; OUT=2 ;;
    esac
done
rm -rf "$SCRATCH"
exit $OUT
