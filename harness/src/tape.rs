//! Entropy tape: every random choice a generator makes is read from a
//! `Vec<u32>` produced by proptest.  Shrinking the vector (shorter / smaller
//! numbers) shrinks the decoded structure; an exhausted tape yields zeros, i.e.
//! the first (simplest) alternative everywhere.  Choices are mapped
//! monotonically (`x*n >> 32`), never with `%`, so that shrinking makes progress.

#[derive(Clone, Debug)]
pub struct Tape<'a> {
    data: &'a [u32],
    pos: usize,
}

impl<'a> Tape<'a> {
    pub fn new(data: &'a [u32]) -> Self {
        Tape { data, pos: 0 }
    }
    pub fn raw(&mut self) -> u32 {
        let v = self.data.get(self.pos).copied().unwrap_or(0);
        self.pos += 1;
        v
    }
    pub fn exhausted(&self) -> bool {
        self.pos >= self.data.len()
    }
    pub fn consumed(&self) -> usize {
        self.pos
    }
    /// Uniform in `0..n` (n >= 1); 0 when the tape is exhausted.
    pub fn pick(&mut self, n: usize) -> usize {
        debug_assert!(n >= 1);
        ((self.raw() as u64 * n as u64) >> 32) as usize
    }
    /// Uniform in `lo..=hi`.
    pub fn range(&mut self, lo: i64, hi: i64) -> i64 {
        debug_assert!(lo <= hi);
        let n = (hi - lo + 1) as u64;
        lo + ((self.raw() as u64 as u128 * n as u128) >> 32) as i64
    }
    pub fn u16(&mut self) -> u16 {
        (self.raw() >> 16) as u16
    }
    pub fn u8(&mut self) -> u8 {
        (self.raw() >> 24) as u8
    }
    /// True with probability num/den; false when exhausted.
    pub fn chance(&mut self, num: u32, den: u32) -> bool {
        // high values -> true so that shrinking (towards 0) turns options off
        let x = self.raw() as u64;
        x >= ((den - num) as u64 * (1u64 << 32)) / den as u64 && num > 0
    }
    pub fn choose<'b, T>(&mut self, items: &'b [T]) -> &'b T {
        &items[self.pick(items.len())]
    }
    /// Weighted pick; weights must not all be zero. Index 0 when exhausted.
    pub fn weighted(&mut self, weights: &[u32]) -> usize {
        let total: u64 = weights.iter().map(|&w| w as u64).sum();
        let mut x = (self.raw() as u64 * total) >> 32;
        for (i, &w) in weights.iter().enumerate() {
            if x < w as u64 {
                return i;
            }
            x -= w as u64;
        }
        weights.len() - 1
    }
}
