//! Independent LC-3 instruction encoder / decoder, written from the ISA reference
//! (Patt & Patel, App. A).  Shares no code with `SimInstr::encode/decode`.

use lc3_ensemble::ast::sim::SimInstr;
use lc3_ensemble::ast::{IOffset, ImmOrReg, Offset, Reg};

#[derive(Clone, Copy, Debug, PartialEq, Eq, Hash)]
pub enum Src {
    Reg(u8),
    Imm(i16),
}

/// A machine instruction with plain integer fields.
#[derive(Clone, Copy, Debug, PartialEq, Eq, Hash)]
pub enum MInstr {
    Br { cc: u8, off: i16 },
    Add { dr: u8, sr1: u8, src: Src },
    And { dr: u8, sr1: u8, src: Src },
    Ld { dr: u8, off: i16 },
    St { sr: u8, off: i16 },
    Jsr { off: i16 },
    Jsrr { base: u8 },
    Ldr { dr: u8, base: u8, off: i16 },
    Str { sr: u8, base: u8, off: i16 },
    Rti,
    Not { dr: u8, sr: u8 },
    Ldi { dr: u8, off: i16 },
    Sti { sr: u8, off: i16 },
    Jmp { base: u8 },
    Lea { dr: u8, off: i16 },
    Trap { vect: u8 },
}

#[derive(Clone, Copy, Debug, PartialEq, Eq, Hash)]
pub enum DecErr {
    /// reserved opcode 1101
    Illegal,
    /// must-be-zero bits set / wrong NOT suffix
    Format,
}

fn field(v: i16, bits: u32) -> u16 {
    (v as u16) & ((1u16 << bits) - 1)
}

/// Encodes per the ISA tables: opcode nibble, then operand fields.
pub fn enc(i: &MInstr) -> u16 {
    use MInstr::*;
    let r = |x: u8| (x as u16) & 7;
    match *i {
        Br { cc, off } => 0x0000 + ((cc as u16 & 7) * 512) + field(off, 9),
        Add { dr, sr1, src } => {
            0x1000 + r(dr) * 512 + r(sr1) * 64 + match src {
                Src::Reg(s) => r(s),
                Src::Imm(v) => 32 + field(v, 5),
            }
        }
        Ld { dr, off } => 0x2000 + r(dr) * 512 + field(off, 9),
        St { sr, off } => 0x3000 + r(sr) * 512 + field(off, 9),
        Jsr { off } => 0x4800 + field(off, 11),
        Jsrr { base } => 0x4000 + r(base) * 64,
        And { dr, sr1, src } => {
            0x5000 + r(dr) * 512 + r(sr1) * 64 + match src {
                Src::Reg(s) => r(s),
                Src::Imm(v) => 32 + field(v, 5),
            }
        }
        Ldr { dr, base, off } => 0x6000 + r(dr) * 512 + r(base) * 64 + field(off, 6),
        Str { sr, base, off } => 0x7000 + r(sr) * 512 + r(base) * 64 + field(off, 6),
        Rti => 0x8000,
        Not { dr, sr } => 0x9000 + r(dr) * 512 + r(sr) * 64 + 0x3F,
        Ldi { dr, off } => 0xA000 + r(dr) * 512 + field(off, 9),
        Sti { sr, off } => 0xB000 + r(sr) * 512 + field(off, 9),
        Jmp { base } => 0xC000 + r(base) * 64,
        Lea { dr, off } => 0xE000 + r(dr) * 512 + field(off, 9),
        Trap { vect } => 0xF000 + vect as u16,
    }
}

fn sext(v: u16, bits: u32) -> i16 {
    let m = 1i32 << bits;
    let x = (v as i32) % m;
    (if x >= m / 2 { x - m } else { x }) as i16
}

/// Canonical decoder: `Ok` exactly for canonical encodings.
pub fn dec(w: u16) -> Result<MInstr, DecErr> {
    use MInstr::*;
    let op = w / 4096;
    let a = ((w / 512) % 8) as u8; // bits 11:9
    let b = ((w / 64) % 8) as u8; // bits 8:6
    let low6 = w % 64;
    let off9 = sext(w % 512, 9);
    Ok(match op {
        0x0 => Br { cc: a, off: off9 },
        0x1 | 0x5 => {
            let src = if w & 0x20 != 0 {
                Src::Imm(sext(w % 32, 5))
            } else {
                if w & 0x18 != 0 {
                    return Err(DecErr::Format);
                }
                Src::Reg((w % 8) as u8)
            };
            if op == 1 {
                Add { dr: a, sr1: b, src }
            } else {
                And { dr: a, sr1: b, src }
            }
        }
        0x2 => Ld { dr: a, off: off9 },
        0x3 => St { sr: a, off: off9 },
        0x4 => {
            if w & 0x0800 != 0 {
                Jsr { off: sext(w % 2048, 11) }
            } else {
                if a != 0 || low6 != 0 {
                    return Err(DecErr::Format);
                }
                Jsrr { base: b }
            }
        }
        0x6 => Ldr { dr: a, base: b, off: sext(low6, 6) },
        0x7 => Str { sr: a, base: b, off: sext(low6, 6) },
        0x8 => {
            if w != 0x8000 {
                return Err(DecErr::Format);
            }
            Rti
        }
        0x9 => {
            if low6 != 0x3F {
                return Err(DecErr::Format);
            }
            Not { dr: a, sr: b }
        }
        0xA => Ldi { dr: a, off: off9 },
        0xB => Sti { sr: a, off: off9 },
        0xC => {
            if a != 0 || low6 != 0 {
                return Err(DecErr::Format);
            }
            Jmp { base: b }
        }
        0xD => return Err(DecErr::Illegal),
        0xE => Lea { dr: a, off: off9 },
        0xF => {
            if w & 0x0F00 != 0 {
                return Err(DecErr::Format);
            }
            Trap { vect: (w % 256) as u8 }
        }
        _ => unreachable!(),
    })
}

pub fn reg(n: u8) -> Reg {
    Reg::try_from(n & 7).unwrap()
}

/// Builds the library's instruction value through its public constructors.
/// `None` if a field is not representable (never for values produced by `dec`).
pub fn to_real(i: &MInstr) -> Option<SimInstr> {
    use MInstr::*;
    fn src5(s: Src) -> Option<ImmOrReg<5>> {
        Some(match s {
            Src::Reg(r) => ImmOrReg::Reg(reg(r)),
            Src::Imm(v) => ImmOrReg::Imm(IOffset::<5>::new(v).ok()?),
        })
    }
    Some(match *i {
        Br { cc, off } => SimInstr::BR(cc, IOffset::<9>::new(off).ok()?),
        Add { dr, sr1, src } => SimInstr::ADD(reg(dr), reg(sr1), src5(src)?),
        And { dr, sr1, src } => SimInstr::AND(reg(dr), reg(sr1), src5(src)?),
        Ld { dr, off } => SimInstr::LD(reg(dr), IOffset::<9>::new(off).ok()?),
        St { sr, off } => SimInstr::ST(reg(sr), IOffset::<9>::new(off).ok()?),
        Jsr { off } => SimInstr::JSR(ImmOrReg::Imm(IOffset::<11>::new(off).ok()?)),
        Jsrr { base } => SimInstr::JSR(ImmOrReg::Reg(reg(base))),
        Ldr { dr, base, off } => SimInstr::LDR(reg(dr), reg(base), IOffset::<6>::new(off).ok()?),
        Str { sr, base, off } => SimInstr::STR(reg(sr), reg(base), IOffset::<6>::new(off).ok()?),
        Rti => SimInstr::RTI,
        Not { dr, sr } => SimInstr::NOT(reg(dr), reg(sr)),
        Ldi { dr, off } => SimInstr::LDI(reg(dr), IOffset::<9>::new(off).ok()?),
        Sti { sr, off } => SimInstr::STI(reg(sr), IOffset::<9>::new(off).ok()?),
        Jmp { base } => SimInstr::JMP(reg(base)),
        Lea { dr, off } => SimInstr::LEA(reg(dr), IOffset::<9>::new(off).ok()?),
        Trap { vect } => SimInstr::TRAP(Offset::<u16, 8>::new(vect as u16).ok()?),
    })
}

pub fn from_real(i: &SimInstr) -> MInstr {
    use MInstr::*;
    fn src5(s: &ImmOrReg<5>) -> Src {
        match s {
            ImmOrReg::Reg(r) => Src::Reg(r.reg_no()),
            ImmOrReg::Imm(v) => Src::Imm(v.get()),
        }
    }
    match i {
        SimInstr::BR(cc, off) => Br { cc: *cc, off: off.get() },
        SimInstr::ADD(dr, sr1, s) => Add { dr: dr.reg_no(), sr1: sr1.reg_no(), src: src5(s) },
        SimInstr::AND(dr, sr1, s) => And { dr: dr.reg_no(), sr1: sr1.reg_no(), src: src5(s) },
        SimInstr::LD(dr, off) => Ld { dr: dr.reg_no(), off: off.get() },
        SimInstr::ST(sr, off) => St { sr: sr.reg_no(), off: off.get() },
        SimInstr::JSR(ImmOrReg::Imm(off)) => Jsr { off: off.get() },
        SimInstr::JSR(ImmOrReg::Reg(r)) => Jsrr { base: r.reg_no() },
        SimInstr::LDR(dr, b, off) => Ldr { dr: dr.reg_no(), base: b.reg_no(), off: off.get() },
        SimInstr::STR(sr, b, off) => Str { sr: sr.reg_no(), base: b.reg_no(), off: off.get() },
        SimInstr::RTI => Rti,
        SimInstr::NOT(dr, sr) => Not { dr: dr.reg_no(), sr: sr.reg_no() },
        SimInstr::LDI(dr, off) => Ldi { dr: dr.reg_no(), off: off.get() },
        SimInstr::STI(sr, off) => Sti { sr: sr.reg_no(), off: off.get() },
        SimInstr::JMP(b) => Jmp { base: b.reg_no() },
        SimInstr::LEA(dr, off) => Lea { dr: dr.reg_no(), off: off.get() },
        SimInstr::TRAP(v) => Trap { vect: v.get() as u8 },
    }
}

/// Every representable instruction (opcode x registers x field values).
pub fn all_instrs() -> Vec<MInstr> {
    use MInstr::*;
    let mut v = Vec::with_capacity(45_000);
    for cc in 0..8u8 {
        for off in -256..=255i16 {
            v.push(Br { cc, off });
        }
    }
    for dr in 0..8u8 {
        for sr1 in 0..8u8 {
            for s in 0..8u8 {
                v.push(Add { dr, sr1, src: Src::Reg(s) });
                v.push(And { dr, sr1, src: Src::Reg(s) });
            }
            for imm in -16..=15i16 {
                v.push(Add { dr, sr1, src: Src::Imm(imm) });
                v.push(And { dr, sr1, src: Src::Imm(imm) });
            }
            v.push(Not { dr, sr: sr1 });
            for off in -32..=31i16 {
                v.push(Ldr { dr, base: sr1, off });
                v.push(Str { sr: dr, base: sr1, off });
            }
        }
        for off in -256..=255i16 {
            v.push(Ld { dr, off });
            v.push(St { sr: dr, off });
            v.push(Ldi { dr, off });
            v.push(Sti { sr: dr, off });
            v.push(Lea { dr, off });
        }
        v.push(Jsrr { base: dr });
        v.push(Jmp { base: dr });
    }
    for off in -1024..=1023i16 {
        v.push(Jsr { off });
    }
    v.push(Rti);
    for vect in 0..=255u8 {
        v.push(Trap { vect });
    }
    v
}
