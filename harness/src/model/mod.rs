//! Independent models (share no code with lc3-ensemble).
pub mod isa;
pub mod stmt;
pub mod asm;
pub mod cpu;
