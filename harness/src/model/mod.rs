//! Independent models (share no code with lc3-ensemble).
