//! Independent two-pass assembler model over `MStmt` lists.
//!
//! Produces the memory image, label table, relocation set and line map for a
//! well-formed program, and the *set of violated well-formedness conditions* for
//! any program (C02).

use super::isa::{self, MInstr, Src};
use super::stmt::{MKind, MStmt, Opnd, Src2, StmtLayout};
use std::collections::{BTreeMap, BTreeSet};

#[derive(Clone, Copy, Debug, PartialEq, Eq, PartialOrd, Ord, Hash)]
pub enum ErrClass {
    UndetAddrLabel,
    UndetAddrStmt,
    UnclosedOrig,
    UnopenedOrig,
    OverlappingOrig,
    OverlappingLabels,
    WrappingBlock,
    BlockInIO,
    OverlappingBlocks,
    OffsetNewErr,
    OffsetExternal,
    CouldNotFindLabel,
}

#[derive(Clone, Debug, PartialEq, Eq)]
pub struct LabelInfo {
    pub addr: u16,
    pub external: bool,
    /// (statement index, label index within the statement; usize::MAX = `.external` operand)
    pub first: (usize, usize),
    /// every spelling/occurrence that binds this name: (stmt, label idx)
    pub occurrences: Vec<(usize, usize)>,
}

#[derive(Clone, Debug, Default)]
pub struct AsmOut {
    /// address -> Some(word) | None (.blkw)
    pub image: BTreeMap<u16, Option<u16>>,
    /// upper-cased name -> info
    pub labels: BTreeMap<String, LabelInfo>,
    /// (address, upper-cased label) for every `.fill L` with L external
    pub relocs: BTreeSet<(u16, String)>,
    /// statement index -> address of its first word (sized statements inside blocks)
    pub stmt_addr: BTreeMap<usize, u16>,
    /// non-empty blocks: (start, len)
    pub blocks: Vec<(u32, u32)>,
    pub violations: BTreeSet<ErrClass>,
    /// label names involved in label-related violations (upper-cased)
    pub offending_labels: BTreeSet<String>,
}

impl AsmOut {
    pub fn ok(&self) -> bool {
        self.violations.is_empty()
    }
}

fn up(s: &str) -> String {
    s.to_uppercase()
}

/// Width (bits) of the PC-relative field of a statement with a label operand.
fn pc_field_bits(k: &MKind) -> Option<u32> {
    match k {
        MKind::Br(..) | MKind::Ld(..) | MKind::Ldi(..) | MKind::Lea(..) | MKind::St(..) | MKind::Sti(..) | MKind::Nop(Some(_)) => Some(9),
        MKind::Jsr(_) => Some(11),
        _ => None,
    }
}

fn fits_signed(v: i32, bits: u32) -> bool {
    v >= -(1 << (bits - 1)) && v < (1 << (bits - 1))
}

/// Encodes an instruction statement whose operands are already numeric.
fn encode_instr(k: &MKind, off: i16) -> u16 {
    let s2 = |s: &Src2| match s {
        Src2::Reg(r) => Src::Reg(*r),
        Src2::Imm(v) => Src::Imm(*v as i16),
    };
    let m = match k {
        MKind::Add(d, a, s) => MInstr::Add { dr: *d, sr1: *a, src: s2(s) },
        MKind::And(d, a, s) => MInstr::And { dr: *d, sr1: *a, src: s2(s) },
        MKind::Br(cc, _) => MInstr::Br { cc: *cc, off },
        MKind::Jmp(r) => MInstr::Jmp { base: *r },
        MKind::Jsr(_) => MInstr::Jsr { off },
        MKind::Jsrr(r) => MInstr::Jsrr { base: *r },
        MKind::Ld(r, _) => MInstr::Ld { dr: *r, off },
        MKind::Ldi(r, _) => MInstr::Ldi { dr: *r, off },
        MKind::Ldr(d, b, o) => MInstr::Ldr { dr: *d, base: *b, off: *o as i16 },
        MKind::Lea(r, _) => MInstr::Lea { dr: *r, off },
        MKind::Not(d, a) => MInstr::Not { dr: *d, sr: *a },
        MKind::Ret => MInstr::Jmp { base: 7 },
        MKind::Rti => MInstr::Rti,
        MKind::St(r, _) => MInstr::St { sr: *r, off },
        MKind::Sti(r, _) => MInstr::Sti { sr: *r, off },
        MKind::Str(d, b, o) => MInstr::Str { sr: *d, base: *b, off: *o as i16 },
        MKind::Trap(v) => MInstr::Trap { vect: *v as u8 },
        MKind::Nop(_) => MInstr::Br { cc: 0, off },
        MKind::Getc => MInstr::Trap { vect: 0x20 },
        MKind::Out | MKind::Putc => MInstr::Trap { vect: 0x21 },
        MKind::Puts => MInstr::Trap { vect: 0x22 },
        MKind::In => MInstr::Trap { vect: 0x23 },
        MKind::Putsp => MInstr::Trap { vect: 0x24 },
        MKind::Halt => MInstr::Trap { vect: 0x25 },
        _ => unreachable!("not an instruction"),
    };
    isa::enc(&m)
}

fn numeric_pc_operand(k: &MKind) -> Option<i32> {
    match k {
        MKind::Br(_, Opnd::Num(v))
        | MKind::Jsr(Opnd::Num(v))
        | MKind::Ld(_, Opnd::Num(v))
        | MKind::Ldi(_, Opnd::Num(v))
        | MKind::Lea(_, Opnd::Num(v))
        | MKind::St(_, Opnd::Num(v))
        | MKind::Sti(_, Opnd::Num(v))
        | MKind::Nop(Some(Opnd::Num(v))) => Some(*v),
        MKind::Nop(None) => Some(0),
        _ => None,
    }
}

pub fn asm_model(prog: &[MStmt]) -> AsmOut {
    let mut out = AsmOut::default();
    let v = &mut out.violations;

    // ---------------- pass 1: structure, addresses, labels ----------------
    // in_block: Some((start, lc)) with lc as u32 so overflow is visible
    let mut cur: Option<(u32, u32)> = None;
    // per statement: Some(address) if inside a block
    let mut addr_of: Vec<Option<u32>> = vec![None; prog.len()];
    // (block start, end) in textual order, including empty ones
    let mut blocks: Vec<(u32, u32)> = vec![];

    let mut bind = |out_labels: &mut BTreeMap<String, LabelInfo>,
                    v: &mut BTreeSet<ErrClass>,
                    off: &mut BTreeSet<String>,
                    name: &str,
                    addr: u16,
                    external: bool,
                    occ: (usize, usize)| {
        let key = up(name);
        match out_labels.get_mut(&key) {
            Some(info) => {
                info.occurrences.push(occ);
                if info.addr != addr {
                    v.insert(ErrClass::OverlappingLabels);
                    off.insert(key);
                }
            }
            None => {
                out_labels.insert(key, LabelInfo { addr, external, first: occ, occurrences: vec![occ] });
            }
        }
    };

    for (i, s) in prog.iter().enumerate() {
        // labels first (they bind to the current location counter)
        if !s.labels.is_empty() {
            match cur {
                None => {
                    v.insert(ErrClass::UndetAddrLabel);
                    for l in &s.labels {
                        out.offending_labels.insert(up(l));
                    }
                }
                Some((_, lc)) => {
                    for (j, l) in s.labels.iter().enumerate() {
                        bind(&mut out.labels, v, &mut out.offending_labels, l, lc as u16, false, (i, j));
                    }
                }
            }
        }
        match &s.kind {
            MKind::Orig(a) => {
                if let Some((start, lc)) = cur {
                    v.insert(ErrClass::OverlappingOrig);
                    // recovery: close the open block and start a new one
                    blocks.push((start, lc));
                }
                cur = Some((*a as u32, *a as u32));
            }
            MKind::End => match cur.take() {
                Some((start, lc)) => blocks.push((start, lc)),
                None => {
                    v.insert(ErrClass::UnopenedOrig);
                }
            },
            MKind::External(l) => {
                bind(&mut out.labels, v, &mut out.offending_labels, l, 0, true, (i, usize::MAX));
            }
            k => {
                let n = k.size();
                match &mut cur {
                    None => {
                        v.insert(ErrClass::UndetAddrStmt);
                    }
                    Some((_, lc)) => {
                        addr_of[i] = Some(*lc);
                        let new = *lc + n;
                        if n > 0 {
                            if new > 0xFE00 {
                                v.insert(ErrClass::BlockInIO);
                            }
                            if new > 0x10000 {
                                v.insert(ErrClass::WrappingBlock);
                            }
                        }
                        *lc = new;
                    }
                }
            }
        }
    }
    if let Some((start, lc)) = cur {
        v.insert(ErrClass::UnclosedOrig);
        blocks.push((start, lc));
    }

    // block overlap (non-empty blocks only)
    let nonempty: Vec<(u32, u32)> = blocks.iter().copied().filter(|(s, e)| e > s).collect();
    for (i, a) in nonempty.iter().enumerate() {
        for b in &nonempty[i + 1..] {
            if a.0 < b.1 && b.0 < a.1 {
                v.insert(ErrClass::OverlappingBlocks);
            }
        }
    }
    out.blocks = nonempty.iter().map(|(s, e)| (*s, e - s)).collect();

    // ---------------- pass 2: operands and image ----------------
    for (i, s) in prog.iter().enumerate() {
        let Some(addr) = addr_of[i] else { continue };
        let k = &s.kind;
        if let Some(l) = k.label_operand() {
            let key = up(l);
            match (out.labels.get(&key), pc_field_bits(k)) {
                (None, _) => {
                    v.insert(ErrClass::CouldNotFindLabel);
                    out.offending_labels.insert(key);
                }
                (Some(info), Some(bits)) => {
                    if info.external {
                        v.insert(ErrClass::OffsetExternal);
                        out.offending_labels.insert(key);
                    } else {
                        let off = (info.addr.wrapping_sub((addr as u16).wrapping_add(1))) as i16 as i32;
                        if !fits_signed(off, bits) {
                            v.insert(ErrClass::OffsetNewErr);
                            out.offending_labels.insert(key);
                        }
                    }
                }
                (Some(_), None) => {}
            }
        }
    }

    if !out.violations.is_empty() {
        return out;
    }

    // well-formed: build image, relocations, statement addresses
    for (i, s) in prog.iter().enumerate() {
        let Some(addr) = addr_of[i] else { continue };
        let addr = addr as u16;
        let k = &s.kind;
        if k.size() > 0 {
            out.stmt_addr.insert(i, addr);
        }
        match k {
            MKind::Fill(Opnd::Num(val)) => {
                out.image.insert(addr, Some(val.rem_euclid(65536) as u16));
            }
            MKind::Fill(Opnd::Lab(l)) => {
                let info = &out.labels[&up(l)];
                out.image.insert(addr, Some(info.addr));
                if info.external {
                    out.relocs.insert((addr, up(l)));
                }
            }
            MKind::Blkw(n) => {
                for j in 0..*n as u16 {
                    out.image.insert(addr.wrapping_add(j), None);
                }
            }
            MKind::Stringz(st) => {
                let mut a = addr;
                for b in st.bytes() {
                    out.image.insert(a, Some(b as u16));
                    a = a.wrapping_add(1);
                }
                out.image.insert(a, Some(0));
            }
            k if k.is_instr() => {
                let off = match k.label_operand() {
                    Some(l) => out.labels[&up(l)].addr.wrapping_sub(addr.wrapping_add(1)) as i16,
                    None => numeric_pc_operand(k).unwrap_or(0) as i16,
                };
                out.image.insert(addr, Some(encode_instr(k, off)));
            }
            _ => {}
        }
    }
    out
}

/// Expected line -> address map (C24) from statement addresses and the renderer's layout.
pub fn line_map(out: &AsmOut, layout: &[StmtLayout]) -> BTreeMap<usize, u16> {
    out.stmt_addr.iter().map(|(&i, &a)| (layout[i].line, a)).collect()
}
