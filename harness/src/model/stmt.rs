//! Statement model `MStmt`, conversion from/to the library's AST, and a renderer
//! that writes a statement list as source text with randomized surface syntax,
//! returning the byte ranges of every nucleus / label so spans can be checked.

use crate::tape::Tape;
use lc3_ensemble::ast::asm::{AsmInstr, Directive, Stmt, StmtKind};
use lc3_ensemble::ast::{IOffset, ImmOrReg, Label, Offset, PCOffset, Reg};
use std::collections::BTreeSet;
use std::ops::Range;

#[derive(Clone, Debug, PartialEq, Eq, Hash)]
pub enum Opnd {
    Num(i32),
    Lab(String),
}

#[derive(Clone, Debug, PartialEq, Eq, Hash)]
pub enum Src2 {
    Reg(u8),
    Imm(i32),
}

#[derive(Clone, Debug, PartialEq, Eq, Hash)]
pub enum MKind {
    Add(u8, u8, Src2),
    And(u8, u8, Src2),
    Br(u8, Opnd),
    Jmp(u8),
    Jsr(Opnd),
    Jsrr(u8),
    Ld(u8, Opnd),
    Ldi(u8, Opnd),
    Ldr(u8, u8, i32),
    Lea(u8, Opnd),
    Not(u8, u8),
    Ret,
    Rti,
    St(u8, Opnd),
    Sti(u8, Opnd),
    Str(u8, u8, i32),
    Trap(i32),
    /// `NOP` with optional operand (canonical form: `Some(Num(0))`)
    Nop(Option<Opnd>),
    Getc,
    Out,
    Putc,
    Puts,
    In,
    Putsp,
    Halt,
    Orig(i32),
    /// value written in -32768..=65535 (canonical: 0..=65535)
    Fill(Opnd),
    Blkw(i32),
    Stringz(String),
    End,
    External(String),
}

#[derive(Clone, Debug, PartialEq, Eq, Hash)]
pub struct MStmt {
    pub labels: Vec<String>,
    pub kind: MKind,
}

impl MKind {
    /// Canonical form used for comparisons with parsed statements.
    pub fn canon(&self) -> MKind {
        match self {
            MKind::Nop(None) => MKind::Nop(Some(Opnd::Num(0))),
            MKind::Fill(Opnd::Num(v)) => MKind::Fill(Opnd::Num(v.rem_euclid(65536))),
            k => k.clone(),
        }
    }
    /// Number of memory words the statement occupies.
    pub fn size(&self) -> u32 {
        match self {
            MKind::Orig(_) | MKind::End | MKind::External(_) => 0,
            MKind::Fill(_) => 1,
            MKind::Blkw(n) => *n as u32,
            MKind::Stringz(s) => s.len() as u32 + 1,
            _ => 1,
        }
    }
    pub fn is_instr(&self) -> bool {
        !matches!(self, MKind::Orig(_) | MKind::End | MKind::External(_) | MKind::Fill(_) | MKind::Blkw(_) | MKind::Stringz(_))
    }
    /// The label operand, if any.
    pub fn label_operand(&self) -> Option<&str> {
        match self {
            MKind::Br(_, Opnd::Lab(l))
            | MKind::Jsr(Opnd::Lab(l))
            | MKind::Ld(_, Opnd::Lab(l))
            | MKind::Ldi(_, Opnd::Lab(l))
            | MKind::Lea(_, Opnd::Lab(l))
            | MKind::St(_, Opnd::Lab(l))
            | MKind::Sti(_, Opnd::Lab(l))
            | MKind::Nop(Some(Opnd::Lab(l)))
            | MKind::Fill(Opnd::Lab(l)) => Some(l),
            _ => None,
        }
    }
    pub fn name(&self) -> &'static str {
        match self {
            MKind::Add(_, _, Src2::Reg(_)) => "ADDr",
            MKind::Add(..) => "ADDi",
            MKind::And(_, _, Src2::Reg(_)) => "ANDr",
            MKind::And(..) => "ANDi",
            MKind::Br(..) => "BR",
            MKind::Jmp(_) => "JMP",
            MKind::Jsr(_) => "JSR",
            MKind::Jsrr(_) => "JSRR",
            MKind::Ld(..) => "LD",
            MKind::Ldi(..) => "LDI",
            MKind::Ldr(..) => "LDR",
            MKind::Lea(..) => "LEA",
            MKind::Not(..) => "NOT",
            MKind::Ret => "RET",
            MKind::Rti => "RTI",
            MKind::St(..) => "ST",
            MKind::Sti(..) => "STI",
            MKind::Str(..) => "STR",
            MKind::Trap(_) => "TRAP",
            MKind::Nop(_) => "NOP",
            MKind::Getc => "GETC",
            MKind::Out => "OUT",
            MKind::Putc => "PUTC",
            MKind::Puts => "PUTS",
            MKind::In => "IN",
            MKind::Putsp => "PUTSP",
            MKind::Halt => "HALT",
            MKind::Orig(_) => ".orig",
            MKind::Fill(Opnd::Lab(_)) => ".fill-label",
            MKind::Fill(_) => ".fill",
            MKind::Blkw(_) => ".blkw",
            MKind::Stringz(_) => ".stringz",
            MKind::End => ".end",
            MKind::External(_) => ".external",
        }
    }
}

// ---------------------------------------------------------------------------------
// Conversion from the library's AST

fn opnd_from<const N: u32>(o: &PCOffset<i16, N>) -> Opnd {
    match o {
        PCOffset::Offset(v) => Opnd::Num(v.get() as i32),
        PCOffset::Label(l) => Opnd::Lab(l.name.clone()),
    }
}
fn src_from(s: &ImmOrReg<5>) -> Src2 {
    match s {
        ImmOrReg::Imm(v) => Src2::Imm(v.get() as i32),
        ImmOrReg::Reg(r) => Src2::Reg(r.reg_no()),
    }
}

pub fn from_real(s: &Stmt) -> MStmt {
    let kind = match &s.nucleus {
        StmtKind::Instr(i) => match i {
            AsmInstr::ADD(d, s1, s2) => MKind::Add(d.reg_no(), s1.reg_no(), src_from(s2)),
            AsmInstr::AND(d, s1, s2) => MKind::And(d.reg_no(), s1.reg_no(), src_from(s2)),
            AsmInstr::BR(cc, o) => MKind::Br(*cc, opnd_from(o)),
            AsmInstr::JMP(r) => MKind::Jmp(r.reg_no()),
            AsmInstr::JSR(o) => MKind::Jsr(opnd_from(o)),
            AsmInstr::JSRR(r) => MKind::Jsrr(r.reg_no()),
            AsmInstr::LD(r, o) => MKind::Ld(r.reg_no(), opnd_from(o)),
            AsmInstr::LDI(r, o) => MKind::Ldi(r.reg_no(), opnd_from(o)),
            AsmInstr::LDR(d, b, o) => MKind::Ldr(d.reg_no(), b.reg_no(), o.get() as i32),
            AsmInstr::LEA(r, o) => MKind::Lea(r.reg_no(), opnd_from(o)),
            AsmInstr::NOT(d, s) => MKind::Not(d.reg_no(), s.reg_no()),
            AsmInstr::RET => MKind::Ret,
            AsmInstr::RTI => MKind::Rti,
            AsmInstr::ST(r, o) => MKind::St(r.reg_no(), opnd_from(o)),
            AsmInstr::STI(r, o) => MKind::Sti(r.reg_no(), opnd_from(o)),
            AsmInstr::STR(d, b, o) => MKind::Str(d.reg_no(), b.reg_no(), o.get() as i32),
            AsmInstr::TRAP(v) => MKind::Trap(v.get() as i32),
            AsmInstr::NOP(o) => MKind::Nop(Some(opnd_from(o))),
            AsmInstr::GETC => MKind::Getc,
            AsmInstr::OUT => MKind::Out,
            AsmInstr::PUTC => MKind::Putc,
            AsmInstr::PUTS => MKind::Puts,
            AsmInstr::IN => MKind::In,
            AsmInstr::PUTSP => MKind::Putsp,
            AsmInstr::HALT => MKind::Halt,
        },
        StmtKind::Directive(d) => match d {
            Directive::Orig(a) => MKind::Orig(a.get() as i32),
            Directive::Fill(PCOffset::Offset(v)) => MKind::Fill(Opnd::Num(v.get() as i32)),
            Directive::Fill(PCOffset::Label(l)) => MKind::Fill(Opnd::Lab(l.name.clone())),
            Directive::Blkw(n) => MKind::Blkw(n.get() as i32),
            Directive::Stringz(s) => MKind::Stringz(s.clone()),
            Directive::End => MKind::End,
            Directive::External(l) => MKind::External(l.name.clone()),
        },
    };
    MStmt { labels: s.labels.iter().map(|l| l.name.clone()).collect(), kind }
}

// ---------------------------------------------------------------------------------
// Conversion to the library's AST through its public constructors

#[derive(Clone, Debug, Default)]
pub struct StmtLayout {
    pub nucleus: Range<usize>,
    pub labels: Vec<Range<usize>>,
    /// span of a label operand (or `.external` label), if any
    pub operand_label: Option<Range<usize>>,
    /// 0-based line of the nucleus start
    pub line: usize,
}

fn rg(n: u8) -> Reg {
    Reg::try_from(n & 7).unwrap()
}
fn pco<const N: u32>(o: &Opnd, lay: &StmtLayout) -> Option<PCOffset<i16, N>> {
    Some(match o {
        Opnd::Num(v) => PCOffset::Offset(IOffset::<N>::new(i16::try_from(*v).ok()?).ok()?),
        Opnd::Lab(l) => PCOffset::Label(Label::new(l.clone(), lay.operand_label.clone().unwrap_or(0..l.len()))),
    })
}
fn src5(s: &Src2) -> Option<ImmOrReg<5>> {
    Some(match s {
        Src2::Reg(r) => ImmOrReg::Reg(rg(*r)),
        Src2::Imm(v) => ImmOrReg::Imm(IOffset::<5>::new(i16::try_from(*v).ok()?).ok()?),
    })
}

/// `None` when an operand does not fit its field (such statements cannot be
/// constructed; they are covered through the text path).
pub fn to_real(s: &MStmt, lay: &StmtLayout) -> Option<Stmt> {
    let nucleus = match &s.kind {
        MKind::Add(d, a, b) => StmtKind::Instr(AsmInstr::ADD(rg(*d), rg(*a), src5(b)?)),
        MKind::And(d, a, b) => StmtKind::Instr(AsmInstr::AND(rg(*d), rg(*a), src5(b)?)),
        MKind::Br(cc, o) => StmtKind::Instr(AsmInstr::BR(*cc, pco::<9>(o, lay)?)),
        MKind::Jmp(r) => StmtKind::Instr(AsmInstr::JMP(rg(*r))),
        MKind::Jsr(o) => StmtKind::Instr(AsmInstr::JSR(pco::<11>(o, lay)?)),
        MKind::Jsrr(r) => StmtKind::Instr(AsmInstr::JSRR(rg(*r))),
        MKind::Ld(r, o) => StmtKind::Instr(AsmInstr::LD(rg(*r), pco::<9>(o, lay)?)),
        MKind::Ldi(r, o) => StmtKind::Instr(AsmInstr::LDI(rg(*r), pco::<9>(o, lay)?)),
        MKind::Ldr(d, b, o) => StmtKind::Instr(AsmInstr::LDR(rg(*d), rg(*b), IOffset::<6>::new(i16::try_from(*o).ok()?).ok()?)),
        MKind::Lea(r, o) => StmtKind::Instr(AsmInstr::LEA(rg(*r), pco::<9>(o, lay)?)),
        MKind::Not(d, a) => StmtKind::Instr(AsmInstr::NOT(rg(*d), rg(*a))),
        MKind::Ret => StmtKind::Instr(AsmInstr::RET),
        MKind::Rti => StmtKind::Instr(AsmInstr::RTI),
        MKind::St(r, o) => StmtKind::Instr(AsmInstr::ST(rg(*r), pco::<9>(o, lay)?)),
        MKind::Sti(r, o) => StmtKind::Instr(AsmInstr::STI(rg(*r), pco::<9>(o, lay)?)),
        MKind::Str(d, b, o) => StmtKind::Instr(AsmInstr::STR(rg(*d), rg(*b), IOffset::<6>::new(i16::try_from(*o).ok()?).ok()?)),
        MKind::Trap(v) => StmtKind::Instr(AsmInstr::TRAP(Offset::<u16, 8>::new(u16::try_from(*v).ok()?).ok()?)),
        MKind::Nop(o) => StmtKind::Instr(AsmInstr::NOP(pco::<9>(o.as_ref().unwrap_or(&Opnd::Num(0)), lay)?)),
        MKind::Getc => StmtKind::Instr(AsmInstr::GETC),
        MKind::Out => StmtKind::Instr(AsmInstr::OUT),
        MKind::Putc => StmtKind::Instr(AsmInstr::PUTC),
        MKind::Puts => StmtKind::Instr(AsmInstr::PUTS),
        MKind::In => StmtKind::Instr(AsmInstr::IN),
        MKind::Putsp => StmtKind::Instr(AsmInstr::PUTSP),
        MKind::Halt => StmtKind::Instr(AsmInstr::HALT),
        MKind::Orig(a) => StmtKind::Directive(Directive::Orig(Offset::<u16, 16>::new(u16::try_from(*a).ok()?).ok()?)),
        MKind::Fill(Opnd::Num(v)) => {
            if !(-32768..=65535).contains(v) {
                return None;
            }
            StmtKind::Directive(Directive::Fill(PCOffset::Offset(Offset::<u16, 16>::new(v.rem_euclid(65536) as u16).ok()?)))
        }
        MKind::Fill(Opnd::Lab(l)) => StmtKind::Directive(Directive::Fill(PCOffset::Label(Label::new(
            l.clone(),
            lay.operand_label.clone().unwrap_or(0..l.len()),
        )))),
        MKind::Blkw(n) => {
            if *n == 0 {
                return None;
            }
            StmtKind::Directive(Directive::Blkw(Offset::<u16, 16>::new(u16::try_from(*n).ok()?).ok()?))
        }
        MKind::Stringz(s) => StmtKind::Directive(Directive::Stringz(s.clone())),
        MKind::End => StmtKind::Directive(Directive::End),
        MKind::External(l) => StmtKind::Directive(Directive::External(Label::new(l.clone(), lay.operand_label.clone().unwrap_or(0..l.len())))),
    };
    let labels = s
        .labels
        .iter()
        .enumerate()
        .map(|(i, n)| Label::new(n.clone(), lay.labels.get(i).cloned().unwrap_or(0..n.len())))
        .collect();
    Some(Stmt { labels, nucleus, span: lay.nucleus.clone() })
}

pub fn to_real_all(prog: &[MStmt], layout: &[StmtLayout]) -> Option<Vec<Stmt>> {
    prog.iter().zip(layout).map(|(s, l)| to_real(s, l)).collect()
}

// ---------------------------------------------------------------------------------
// Label names

pub const KEYWORDS: &[&str] = &[
    "ADD", "AND", "NOT", "BR", "BRP", "BRZ", "BRZP", "BRN", "BRNP", "BRNZ", "BRNZP", "JMP", "JSR", "JSRR", "LD", "LDI", "LDR", "LEA", "ST", "STI", "STR", "TRAP",
    "NOP", "RET", "RTI", "GETC", "OUT", "PUTC", "PUTS", "IN", "PUTSP", "HALT",
];

/// Would this identifier lex as something other than a label?
pub fn label_is_safe(name: &str) -> bool {
    let b = name.as_bytes();
    if b.is_empty() || !(b[0].is_ascii_alphabetic() || b[0] == b'_') {
        return false;
    }
    if !b.iter().all(|c| c.is_ascii_alphanumeric() || *c == b'_') {
        return false;
    }
    let up = name.to_ascii_uppercase();
    if KEYWORDS.contains(&up.as_str()) {
        return false;
    }
    // R<digits> is a register token
    if (b[0] == b'R' || b[0] == b'r') && b.len() > 1 && b[1..].iter().all(|c| c.is_ascii_digit()) {
        return false;
    }
    // x<hexdigit>... is a hex literal token
    if (b[0] == b'X' || b[0] == b'x') && b.len() > 1 && b[1].is_ascii_hexdigit() {
        return false;
    }
    true
}

const LABEL_FIRST: &[u8] = b"ABCDEFGHIJKLMNOPQRSTUVWXYZabcdefghijklmnopqrstuvwxyz_";
const LABEL_REST: &[u8] = b"ABCDEFGHIJKLMNOPQRSTUVWXYZabcdefghijklmnopqrstuvwxyz_0123456789";

/// Generates `n` label names that are pairwise distinct ignoring case.
pub fn gen_label_pool(t: &mut Tape, n: usize) -> Vec<String> {
    let mut pool: Vec<String> = Vec::new();
    let mut guard = 0;
    while pool.len() < n && guard < 10 * n + 20 {
        guard += 1;
        let len = 1 + t.weighted(&[6, 5, 4, 3, 2, 2, 1, 1, 1, 1, 1, 1, 1]);
        let mut s = String::new();
        s.push(*t.choose(LABEL_FIRST) as char);
        for _ in 1..len {
            s.push(*t.choose(LABEL_REST) as char);
        }
        if !label_is_safe(&s) {
            continue;
        }
        let up = s.to_ascii_uppercase();
        if pool.iter().any(|p| p.to_ascii_uppercase() == up) {
            continue;
        }
        pool.push(s);
    }
    // deterministic fallback names
    let mut k = 0;
    while pool.len() < n {
        let s = format!("L_{k}");
        k += 1;
        if !pool.iter().any(|p| p.eq_ignore_ascii_case(&s)) {
            pool.push(s);
        }
    }
    pool
}

/// Random case flips of the ASCII letters of `s`.
pub fn flip_case(t: &mut Tape, s: &str) -> String {
    match t.pick(4) {
        0 => s.to_string(),
        1 => s.to_ascii_uppercase(),
        2 => s.to_ascii_lowercase(),
        _ => s
            .chars()
            .map(|c| if t.chance(1, 2) { if c.is_ascii_uppercase() { c.to_ascii_lowercase() } else { c.to_ascii_uppercase() } } else { c })
            .collect(),
    }
}

// ---------------------------------------------------------------------------------
// Renderer

#[derive(Clone, Debug, Default)]
pub struct Rendered {
    pub text: String,
    pub layout: Vec<StmtLayout>,
    pub features: BTreeSet<&'static str>,
}

/// Rendering options: `plain` gives canonical one-statement-per-line upper-case text.
#[derive(Clone, Copy, Debug)]
pub struct RenderOpts {
    pub plain: bool,
    /// comment alphabet may include control and non-ASCII characters
    pub wild_comments: bool,
}

struct R<'a, 'b> {
    t: &'a mut Tape<'b>,
    out: String,
    line: usize,
    feats: BTreeSet<&'static str>,
    opts: RenderOpts,
    crlf_mode: usize, // 0 LF, 1 CRLF, 2 mixed
}

impl<'a, 'b> R<'a, 'b> {
    fn plain(&self) -> bool {
        self.opts.plain
    }
    fn newline(&mut self) {
        let crlf = match self.crlf_mode {
            0 => false,
            1 => true,
            _ => self.t.chance(1, 2),
        };
        if crlf {
            self.out.push_str("\r\n");
            self.feats.insert("crlf");
        } else {
            self.out.push('\n');
        }
        self.line += 1;
    }
    fn spaces(&mut self, min: usize) {
        if self.plain() {
            for _ in 0..min {
                self.out.push(' ');
            }
            return;
        }
        let n = min + self.t.weighted(&[10, 3, 2, 1]);
        for _ in 0..n {
            if self.t.chance(1, 6) {
                self.out.push('\t');
                self.feats.insert("tab");
            } else {
                self.out.push(' ');
            }
        }
    }
    fn word(&mut self, w: &str) {
        if self.plain() {
            self.out.push_str(w);
            return;
        }
        match self.t.weighted(&[5, 3, 2]) {
            0 => self.out.push_str(w),
            1 => {
                self.out.push_str(&w.to_ascii_lowercase());
                self.feats.insert("lower-case");
            }
            _ => {
                for c in w.chars() {
                    if self.t.chance(1, 2) {
                        self.out.push(c.to_ascii_lowercase());
                    } else {
                        self.out.push(c.to_ascii_uppercase());
                    }
                }
                self.feats.insert("mixed-case");
            }
        }
    }
    fn reg(&mut self, r: u8) {
        let c = if !self.plain() && self.t.chance(1, 3) {
            self.feats.insert("lower-reg");
            'r'
        } else {
            'R'
        };
        self.out.push(c);
        self.out.push((b'0' + (r & 7)) as char);
    }
    fn comma(&mut self) {
        if self.plain() {
            self.out.push_str(", ");
            return;
        }
        self.spaces(0);
        self.out.push(',');
        self.spaces(0);
    }
    fn num(&mut self, v: i32) {
        let s = render_num(self.t, v, self.plain(), &mut self.feats);
        self.out.push_str(&s);
    }
    fn comment(&mut self) {
        self.out.push(';');
        let n = self.t.weighted(&[2, 3, 3, 2, 1, 1, 1, 1]) * 3;
        const TAME: &[&str] = &["a", "b", " ", "x3000", ";", "\"", "\\", "#", "R1", ".end", ":", ",", "é", "-", "'"];
        const WILD: &[&str] = &["\t", "\u{1}", "\u{7f}", "ı", "😀", "\u{a0}", "\\n", "\\\"", "\u{0}", "|", " | ", "====", "\u{85}", "\u{0}7", "\u{0}12", "\u{1b}[0m", "\u{8}"];
        for _ in 0..n {
            if self.opts.wild_comments && self.t.chance(1, 4) {
                let s = *self.t.choose(WILD);
                self.out.push_str(s);
            } else {
                let s = *self.t.choose(TAME);
                self.out.push_str(s);
            }
        }
        self.feats.insert("comment");
    }
    /// optional trailing whitespace + comment, then newline
    fn end_line(&mut self, last: bool) {
        if !self.plain() {
            if self.t.chance(1, 4) {
                self.spaces(1);
                self.feats.insert("trailing-ws");
            }
            if self.t.chance(1, 4) {
                self.comment();
            }
        }
        if last && !self.plain() && self.t.chance(1, 3) {
            self.feats.insert("no-final-newline");
            return;
        }
        self.newline();
    }
    fn filler_lines(&mut self) {
        if self.plain() {
            return;
        }
        let n = self.t.weighted(&[12, 2, 1]);
        for _ in 0..n {
            match self.t.pick(3) {
                0 => {
                    self.feats.insert("blank-line");
                }
                1 => {
                    self.spaces(1);
                    self.feats.insert("ws-only-line");
                }
                _ => {
                    self.spaces(0);
                    self.comment();
                }
            }
            self.newline();
        }
    }
    fn label_text(&mut self, name: &str) -> Range<usize> {
        let start = self.out.len();
        self.out.push_str(name);
        start..self.out.len()
    }
    fn opnd(&mut self, o: &Opnd, lay: &mut StmtLayout) {
        match o {
            Opnd::Num(v) => self.num(*v),
            Opnd::Lab(l) => {
                lay.operand_label = Some(self.label_text(l));
            }
        }
    }
    fn string_lit(&mut self, s: &str) {
        self.out.push('"');
        let chars: Vec<char> = s.chars().collect();
        let mut i = 0;
        while i < chars.len() {
            let c = chars[i];
            match c {
                '"' => self.out.push_str("\\\""),
                '\n' => self.out.push_str("\\n"),
                '\r' => self.out.push_str("\\r"),
                '\0' => self.out.push_str("\\0"),
                '\t' => {
                    if self.plain() || self.t.chance(1, 2) {
                        self.out.push_str("\\t")
                    } else {
                        self.out.push('\t')
                    }
                }
                '\\' => {
                    // a backslash followed by a char that is not an escape letter may be written raw
                    let next = chars.get(i + 1).copied();
                    let raw_ok = matches!(next, Some(n) if n.is_ascii() && !matches!(n, 'n' | 'r' | 't' | '\\' | '0' | '"' | '\n' | '\r' | '\0' | '\t'));
                    if raw_ok && !self.plain() && self.t.chance(1, 2) {
                        self.out.push('\\');
                        self.out.push(next.unwrap());
                        self.feats.insert("unknown-escape");
                        i += 1;
                    } else {
                        self.out.push_str("\\\\");
                    }
                }
                c => self.out.push(c),
            }
            i += 1;
        }
        self.out.push('"');
    }

    fn nucleus(&mut self, k: &MKind, lay: &mut StmtLayout) {
        let start = self.out.len();
        lay.line = self.line;
        macro_rules! rr {
            ($name:expr, $a:expr, $b:expr) => {{
                self.word($name);
                self.spaces(1);
                self.reg(*$a);
                self.comma();
                self.reg(*$b);
            }};
        }
        macro_rules! ro {
            ($name:expr, $a:expr, $o:expr) => {{
                self.word($name);
                self.spaces(1);
                self.reg(*$a);
                self.comma();
                self.opnd($o, lay);
            }};
        }
        match k {
            MKind::Add(d, a, s) | MKind::And(d, a, s) => {
                rr!(if matches!(k, MKind::Add(..)) { "ADD" } else { "AND" }, d, a);
                self.comma();
                match s {
                    Src2::Reg(r) => self.reg(*r),
                    Src2::Imm(v) => self.num(*v),
                }
            }
            MKind::Br(cc, o) => {
                let name = match cc & 7 {
                    0b001 => "BRP",
                    0b010 => "BRZ",
                    0b011 => "BRZP",
                    0b100 => "BRN",
                    0b101 => "BRNP",
                    0b110 => "BRNZ",
                    0b111 => {
                        if !self.plain() && self.t.chance(1, 2) {
                            "BRNZP"
                        } else {
                            "BR"
                        }
                    }
                    _ => "BR", // cc = 0 cannot be written as BR*; callers use Nop
                };
                self.word(name);
                self.spaces(1);
                self.opnd(o, lay);
            }
            MKind::Jmp(r) => {
                self.word("JMP");
                self.spaces(1);
                self.reg(*r);
            }
            MKind::Jsrr(r) => {
                self.word("JSRR");
                self.spaces(1);
                self.reg(*r);
            }
            MKind::Jsr(o) => {
                self.word("JSR");
                self.spaces(1);
                self.opnd(o, lay);
            }
            MKind::Ld(r, o) => ro!("LD", r, o),
            MKind::Ldi(r, o) => ro!("LDI", r, o),
            MKind::Lea(r, o) => ro!("LEA", r, o),
            MKind::St(r, o) => ro!("ST", r, o),
            MKind::Sti(r, o) => ro!("STI", r, o),
            MKind::Ldr(d, b, o) | MKind::Str(d, b, o) => {
                rr!(if matches!(k, MKind::Ldr(..)) { "LDR" } else { "STR" }, d, b);
                self.comma();
                self.num(*o);
            }
            MKind::Not(d, a) => rr!("NOT", d, a),
            MKind::Ret => self.word("RET"),
            MKind::Rti => self.word("RTI"),
            MKind::Trap(v) => {
                self.word("TRAP");
                self.spaces(1);
                self.num(*v);
            }
            MKind::Nop(None) => self.word("NOP"),
            MKind::Nop(Some(o)) => {
                self.word("NOP");
                self.spaces(1);
                self.opnd(o, lay);
            }
            MKind::Getc => self.word("GETC"),
            MKind::Out => self.word("OUT"),
            MKind::Putc => self.word("PUTC"),
            MKind::Puts => self.word("PUTS"),
            MKind::In => self.word("IN"),
            MKind::Putsp => self.word("PUTSP"),
            MKind::Halt => self.word("HALT"),
            MKind::Orig(a) => {
                self.word(".ORIG");
                self.spaces(1);
                self.num(*a);
            }
            MKind::Fill(o) => {
                self.word(".FILL");
                self.spaces(1);
                self.opnd(o, lay);
            }
            MKind::Blkw(n) => {
                self.word(".BLKW");
                self.spaces(1);
                self.num(*n);
            }
            MKind::Stringz(s) => {
                self.word(".STRINGZ");
                self.spaces(1);
                self.string_lit(s);
            }
            MKind::End => self.word(".END"),
            MKind::External(l) => {
                self.word(".EXTERNAL");
                self.spaces(1);
                lay.operand_label = Some(self.label_text(l));
            }
        }
        lay.nucleus = start..self.out.len();
    }
}

/// Writes a value in one of the notations that denote it.
pub fn render_num(t: &mut Tape, v: i32, plain: bool, feats: &mut BTreeSet<&'static str>) -> String {
    let mag = (v as i64).unsigned_abs();
    if plain {
        return if v < 0 { format!("#-{mag}") } else { format!("#{mag}") };
    }
    let zeros = "0".repeat(t.weighted(&[10, 2, 1, 1, 1]));
    if !zeros.is_empty() {
        feats.insert("leading-zeros");
    }
    let hex = |t: &mut Tape| -> String {
        let h = format!("{mag:X}");
        h.chars().map(|c| if t.chance(1, 2) { c.to_ascii_lowercase() } else { c }).collect()
    };
    let negative = v < 0 || (v == 0 && t.chance(1, 8));
    let form = t.weighted(&[4, 4, 4]);
    let x = if t.chance(1, 2) { 'x' } else { 'X' };
    if form != 1 {
        feats.insert("alt-notation");
    }
    match (negative, form) {
        (false, 0) => format!("{zeros}{mag}"),
        (false, 1) => format!("#{zeros}{mag}"),
        (false, _) => format!("{x}{zeros}{}", hex(t)),
        (true, 0) => format!("-{zeros}{mag}"),
        (true, 1) => format!("#-{zeros}{mag}"),
        (true, _) => format!("{x}-{zeros}{}", hex(t)),
    }
}

/// Renders a statement list.  Every random surface choice is read from `t`.
pub fn render(prog: &[MStmt], t: &mut Tape, opts: RenderOpts) -> Rendered {
    let crlf_mode = if opts.plain { 0 } else { t.weighted(&[6, 2, 2]) };
    let mut r = R { t, out: String::new(), line: 0, feats: BTreeSet::new(), opts, crlf_mode };
    let mut layout = Vec::with_capacity(prog.len());
    let n = prog.len();
    for (idx, s) in prog.iter().enumerate() {
        let mut lay = StmtLayout::default();
        r.filler_lines();
        if !r.plain() {
            r.spaces(0);
        } else if !matches!(s.kind, MKind::Orig(_) | MKind::End | MKind::External(_)) {
            r.out.push_str("    ");
        }
        for l in &s.labels {
            let sp = r.label_text(l);
            lay.labels.push(sp);
            if !r.plain() && r.t.chance(1, 3) {
                if r.t.chance(1, 4) {
                    r.spaces(1);
                }
                r.out.push(':');
                r.feats.insert("colon");
                // after a colon no whitespace is needed
                if r.t.chance(1, 2) {
                    r.spaces(0);
                } else {
                    r.spaces(1);
                }
            } else {
                r.spaces(1);
            }
            if !r.plain() && r.t.chance(1, 4) {
                // label on its own line (possibly followed by filler lines)
                if r.t.chance(1, 4) {
                    r.comment();
                }
                r.newline();
                r.filler_lines();
                r.spaces(0);
                r.feats.insert("label-own-line");
            }
        }
        r.nucleus(&s.kind, &mut lay);
        r.end_line(idx + 1 == n);
        layout.push(lay);
    }
    if !r.plain() {
        r.filler_lines();
    }
    Rendered { text: r.out, layout, features: r.feats }
}

// ---------------------------------------------------------------------------------
// Stable replay path: a case given as source text (parsed with the library's parser)

fn operand_label_span(s: &Stmt) -> Option<Range<usize>> {
    fn pl<const N: u32>(o: &PCOffset<i16, N>) -> Option<Range<usize>> {
        match o {
            PCOffset::Label(l) => Some(l.span()),
            _ => None,
        }
    }
    match &s.nucleus {
        StmtKind::Instr(i) => match i {
            AsmInstr::BR(_, o) | AsmInstr::LD(_, o) | AsmInstr::LDI(_, o) | AsmInstr::LEA(_, o) | AsmInstr::ST(_, o) | AsmInstr::STI(_, o) | AsmInstr::NOP(o) => pl(o),
            AsmInstr::JSR(o) => pl(o),
            _ => None,
        },
        StmtKind::Directive(Directive::Fill(PCOffset::Label(l))) => Some(l.span()),
        StmtKind::Directive(Directive::External(l)) => Some(l.span()),
        _ => None,
    }
}

/// Parses `text` with the library and returns the statement model plus the layout
/// implied by the parser's spans.  Used only to replay stored regression cases.
pub fn parse_source(text: &str) -> Result<(Vec<MStmt>, Vec<StmtLayout>), String> {
    let ast = lc3_ensemble::parse::parse_ast(text).map_err(|e| format!("replay source does not parse: {e:?}"))?;
    let mut prog = vec![];
    let mut layout = vec![];
    for s in &ast {
        prog.push(from_real(s));
        layout.push(StmtLayout {
            nucleus: s.span.clone(),
            labels: s.labels.iter().map(|l| l.span()).collect(),
            operand_label: operand_label_span(s),
            line: text[..s.span.start.min(text.len())].matches('\n').count(),
        });
    }
    Ok((prog, layout))
}
