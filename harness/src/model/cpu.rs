//! Reference LC-3 machine `RefCpu`: an independent step function written from the ISA
//! (Patt & Patel 3e, App. A/C) and the crate's documentation.  Pinned interpretations
//! R1-R10 are listed in DESIGN.md section 3.2.

use super::isa::{self, DecErr, MInstr, Src};
use std::collections::{BTreeMap, BTreeSet, VecDeque};

pub const USER_START: u16 = 0x3000;
pub const IO_START: u16 = 0xFE00;
pub const KBSR: u16 = 0xFE00;
pub const KBDR: u16 = 0xFE02;
pub const DSR: u16 = 0xFE04;
pub const DDR: u16 = 0xFE06;
pub const PSR_ADDR: u16 = 0xFFFC;
pub const MCR_ADDR: u16 = 0xFFFE;

#[derive(Clone, Copy, Debug, PartialEq, Eq)]
pub enum IReg {
    Pc,
    Psr,
    Mcr,
    SavedSp,
}

#[derive(Clone, Copy, Debug, PartialEq, Eq, Hash)]
pub enum Fault {
    Acv,
    Privilege,
    IllegalOpcode,
    InvalidFormat,
}

#[derive(Clone, Copy, Debug, PartialEq, Eq, Hash)]
pub enum StepOut {
    Ok,
    Halt,
    Err(Fault),
}

#[derive(Clone, Copy, Debug, PartialEq, Eq, Hash)]
pub enum FrameKind {
    Subroutine,
    Trap,
    Interrupt,
}

#[derive(Clone, Debug, PartialEq, Eq)]
pub struct RFrame {
    pub caller: u16,
    pub callee: u16,
    pub kind: FrameKind,
    pub fp: Option<u16>,
    pub args: Vec<u16>,
}

#[derive(Clone, Debug, PartialEq, Eq)]
pub enum Sig {
    /// standard calling convention with n stack parameters
    Stack(usize),
    /// pass-by-register
    Regs(Vec<u8>),
}

/// What happened in the last step (for classification and for C09/C28).
#[derive(Clone, Debug, Default)]
pub struct StepInfo {
    pub reads: BTreeSet<u16>,
    pub writes: BTreeSet<u16>,
    /// written with a different value
    pub changed: BTreeSet<u16>,
    pub took_interrupt: Option<(u8, u8)>,
    pub instr: Option<MInstr>,
    pub fetched_from: Option<u16>,
    /// real-trap exception entry performed in this step
    pub exception_entry: Option<Fault>,
    /// phase in which the fault occurred: "fetch" | "decode" | "execute"
    pub fault_phase: Option<&'static str>,
    pub trap_entry: Option<u8>,
    pub rti_to_user: Option<bool>,
    pub io_touched: BTreeSet<u16>,
    pub user_mode_at_start: bool,
    /// R11: the entry sequence pushed PSR/PC onto a memory-mapped internal register (outside the modelled domain)
    pub entry_stack_on_ireg: bool,
}

#[derive(Clone, Debug)]
pub struct RefCpu {
    pub mem: Vec<u16>,
    pub r: [u16; 8],
    pub pc: u16,
    pub psr: u16,
    pub saved_sp: u16,
    pub mcr: bool,
    pub has_kbd: bool,
    pub kbd: VecDeque<u8>,
    pub kbd_ie: bool,
    pub has_display: bool,
    pub display: Vec<u8>,
    pub iregs: BTreeMap<u16, IReg>,
    pub real_traps: bool,
    pub ignore_priv: bool,
    pub debug_frames: bool,
    pub frames: Vec<RFrame>,
    pub depth: u64,
    pub instructions: u64,
    /// address of the instruction that is executing / failed last (what `prefetch_pc()` must report)
    pub fault_addr: u16,
    pub sr_defs: BTreeMap<u16, Sig>,
    pub info: StepInfo,
}

fn sext(v: i16) -> u16 {
    v as u16
}

impl RefCpu {
    pub fn new(mem: Vec<u16>) -> Self {
        assert_eq!(mem.len(), 65536);
        let mut iregs = BTreeMap::new();
        iregs.insert(PSR_ADDR, IReg::Psr);
        iregs.insert(MCR_ADDR, IReg::Mcr);
        RefCpu {
            mem,
            r: [0; 8],
            pc: 0x3000,
            psr: 0x8002,
            saved_sp: 0x3000,
            mcr: false,
            has_kbd: false,
            kbd: VecDeque::new(),
            kbd_ie: false,
            has_display: false,
            display: vec![],
            iregs,
            real_traps: false,
            ignore_priv: false,
            debug_frames: false,
            frames: vec![],
            depth: 0,
            instructions: 0,
            fault_addr: 0x3000,
            sr_defs: BTreeMap::new(),
            info: StepInfo::default(),
        }
    }

    pub fn user_mode(&self) -> bool {
        self.psr & 0x8000 != 0
    }
    pub fn priority(&self) -> u8 {
        ((self.psr >> 8) & 7) as u8
    }
    fn privileged_access(&self) -> bool {
        !self.user_mode() || self.ignore_priv
    }
    fn set_cc(&mut self, v: u16) {
        let cc = if v & 0x8000 != 0 {
            4
        } else if v == 0 {
            2
        } else {
            1
        };
        self.psr = (self.psr & !7) | cc;
    }
    /// PSR written through its memory-mapped port: only bits 15, 10:8, 2:0 are kept and a
    /// condition code that is not one-hot becomes Z (documented in `PSR::set`).
    fn psr_port_write(&mut self, data: u16) {
        let mut v = data & 0x8707;
        let cc = v & 7;
        if cc.count_ones() != 1 {
            v = (v & !7) | 2;
        }
        self.psr = v;
    }

    /// The interrupt the keyboard raises on its own (vector x80, priority 4) when enabled and ready.
    pub fn kbd_interrupt(&self) -> Option<(u8, u8)> {
        (self.has_kbd && self.kbd_ie && !self.kbd.is_empty()).then_some((0x80, 4))
    }

    fn io_read(&mut self, addr: u16) -> Option<u16> {
        if let Some(ir) = self.iregs.get(&addr).copied() {
            return Some(match ir {
                IReg::Pc => self.pc,
                IReg::Psr => self.psr,
                IReg::Mcr => (self.mcr as u16) << 15,
                IReg::SavedSp => self.saved_sp,
            });
        }
        match addr {
            KBSR if self.has_kbd => Some(((!self.kbd.is_empty()) as u16) << 15 | (self.kbd_ie as u16) << 14),
            KBDR if self.has_kbd => self.kbd.pop_front().map(|b| b as u16),
            DSR if self.has_display => Some(0x8000),
            _ => None,
        }
    }
    /// returns whether the write was accepted
    fn io_write(&mut self, addr: u16, data: u16) -> bool {
        if let Some(ir) = self.iregs.get(&addr).copied() {
            match ir {
                IReg::Pc => self.pc = data,
                IReg::Psr => self.psr_port_write(data),
                IReg::Mcr => self.mcr = data & 0x8000 != 0,
                IReg::SavedSp => self.saved_sp = data,
            }
            return true;
        }
        match addr {
            KBSR if self.has_kbd => {
                self.kbd_ie = data & 0x4000 != 0;
                true
            }
            DDR if self.has_display => {
                self.display.push(data as u8);
                true
            }
            _ => false,
        }
    }

    /// Memory read as performed by an instruction (access check done by the caller).
    fn read(&mut self, addr: u16) -> u16 {
        if addr >= IO_START {
            self.info.io_touched.insert(addr);
            if let Some(v) = self.io_read(addr) {
                self.mem[addr as usize] = v;
            }
        }
        self.info.reads.insert(addr);
        self.mem[addr as usize]
    }
    fn write(&mut self, addr: u16, data: u16) {
        let accepted = if addr >= IO_START {
            self.info.io_touched.insert(addr);
            self.io_write(addr, data)
        } else {
            true
        };
        if accepted {
            self.info.writes.insert(addr);
            if self.mem[addr as usize] != data {
                self.info.changed.insert(addr);
            }
            self.mem[addr as usize] = data;
        }
    }
    fn allowed(&self, addr: u16) -> bool {
        self.privileged_access() || (USER_START..IO_START).contains(&addr)
    }

    fn push_frame(&mut self, caller: u16, callee: u16, kind: FrameKind) {
        self.depth += 1;
        if !self.debug_frames {
            return;
        }
        let sig = match kind {
            FrameKind::Subroutine | FrameKind::Interrupt => self.sr_defs.get(&callee).cloned(),
            FrameKind::Trap => match callee {
                0x20 | 0x23 | 0x25 => Some(Sig::Regs(vec![])),
                0x21 | 0x22 | 0x24 => Some(Sig::Regs(vec![0])),
                _ => None,
            },
        };
        let (fp, args) = match sig {
            Some(Sig::Stack(n)) => {
                let fp = self.r[6].wrapping_sub(4);
                (Some(fp), (0..n).map(|i| self.mem[fp.wrapping_add(4).wrapping_add(i as u16) as usize]).collect())
            }
            Some(Sig::Regs(rs)) => (None, rs.iter().map(|r| self.r[*r as usize]).collect()),
            None => (None, vec![]),
        };
        self.frames.push(RFrame { caller, callee, kind, fp, args });
    }
    fn pop_frame(&mut self) {
        self.depth = self.depth.saturating_sub(1);
        if self.debug_frames {
            self.frames.pop();
        }
    }

    /// TRAP / interrupt / exception entry (R3).
    fn enter(&mut self, vect: u16, prio: Option<u8>, kind: FrameKind) {
        if self.user_mode() {
            std::mem::swap(&mut self.saved_sp, &mut self.r[6]);
        }
        let old_psr = self.psr;
        let old_pc = self.pc;
        self.psr &= 0x7FFF;
        let sp = self.r[6];
        if self.iregs.contains_key(&sp.wrapping_sub(1)) || self.iregs.contains_key(&sp.wrapping_sub(2)) {
            self.info.entry_stack_on_ireg = true;
        }
        self.r[6] = sp.wrapping_sub(2);
        self.write(sp.wrapping_sub(1), old_psr);
        self.write(sp.wrapping_sub(2), old_pc);
        self.psr = (self.psr & !7) | 2;
        if let Some(p) = prio {
            self.psr = (self.psr & !0x0700) | ((p as u16 & 7) << 8);
        }
        let target = self.read(vect);
        self.push_frame(self.fault_addr, vect, kind);
        self.pc = target;
    }

    fn raise(&mut self, f: Fault, phase: &'static str) -> StepOut {
        self.info.fault_phase = Some(phase);
        if !self.real_traps {
            return StepOut::Err(f);
        }
        self.info.exception_entry = Some(f);
        let vect = match f {
            Fault::Privilege => 0x100,
            Fault::IllegalOpcode | Fault::InvalidFormat => 0x101,
            Fault::Acv => 0x102,
        };
        self.enter(vect, None, FrameKind::Trap);
        StepOut::Ok
    }

    /// One step. `pending`: interrupts raised by devices other than the keyboard, in device order.
    pub fn step(&mut self, pending: &[(u8, u8)]) -> StepOut {
        self.info = StepInfo { user_mode_at_start: self.user_mode(), ..Default::default() };
        self.fault_addr = self.pc;
        // interrupt selection: keyboard first in device order, the last maximum wins
        let mut best: Option<(u8, u8)> = None;
        for cand in self.kbd_interrupt().into_iter().chain(pending.iter().copied()) {
            if best.is_none_or(|b| cand.1 >= b.1) {
                best = Some(cand);
            }
        }
        if let Some((v, p)) = best {
            if p > self.priority() {
                self.info.took_interrupt = Some((v, p));
                self.enter(0x100 + v as u16, Some(p), FrameKind::Interrupt);
                return StepOut::Ok;
            }
        }
        // fetch
        if !self.allowed(self.pc) {
            return self.raise(Fault::Acv, "fetch");
        }
        self.info.fetched_from = Some(self.pc);
        let word = self.read(self.pc);
        let instr = match isa::dec(word) {
            Ok(i) => i,
            Err(DecErr::Illegal) => return self.raise(Fault::IllegalOpcode, "decode"),
            Err(DecErr::Format) => return self.raise(Fault::InvalidFormat, "decode"),
        };
        self.info.instr = Some(instr);
        self.pc = self.pc.wrapping_add(1);
        use MInstr::*;
        match instr {
            Br { cc, off } => {
                if (cc as u16) & self.psr & 7 != 0 {
                    self.pc = self.pc.wrapping_add(sext(off));
                }
            }
            Add { dr, sr1, src } | And { dr, sr1, src } => {
                let a = self.r[sr1 as usize];
                let b = match src {
                    Src::Reg(x) => self.r[x as usize],
                    Src::Imm(v) => sext(v),
                };
                let res = if matches!(instr, Add { .. }) { a.wrapping_add(b) } else { a & b };
                self.r[dr as usize] = res;
                self.set_cc(res);
            }
            Not { dr, sr } => {
                let res = !self.r[sr as usize];
                self.r[dr as usize] = res;
                self.set_cc(res);
            }
            Ld { dr, off } => {
                let ea = self.pc.wrapping_add(sext(off));
                if !self.allowed(ea) {
                    return self.raise(Fault::Acv, "execute");
                }
                let v = self.read(ea);
                self.r[dr as usize] = v;
                self.set_cc(v);
            }
            Ldr { dr, base, off } => {
                let ea = self.r[base as usize].wrapping_add(sext(off));
                if !self.allowed(ea) {
                    return self.raise(Fault::Acv, "execute");
                }
                let v = self.read(ea);
                self.r[dr as usize] = v;
                self.set_cc(v);
            }
            Ldi { dr, off } => {
                let p = self.pc.wrapping_add(sext(off));
                if !self.allowed(p) {
                    return self.raise(Fault::Acv, "execute");
                }
                let ea = self.read(p);
                if !self.allowed(ea) {
                    return self.raise(Fault::Acv, "execute");
                }
                let v = self.read(ea);
                self.r[dr as usize] = v;
                self.set_cc(v);
            }
            St { sr, off } => {
                let ea = self.pc.wrapping_add(sext(off));
                if !self.allowed(ea) {
                    return self.raise(Fault::Acv, "execute");
                }
                self.write(ea, self.r[sr as usize]);
            }
            Str { sr, base, off } => {
                let ea = self.r[base as usize].wrapping_add(sext(off));
                if !self.allowed(ea) {
                    return self.raise(Fault::Acv, "execute");
                }
                self.write(ea, self.r[sr as usize]);
            }
            Sti { sr, off } => {
                let p = self.pc.wrapping_add(sext(off));
                if !self.allowed(p) {
                    return self.raise(Fault::Acv, "execute");
                }
                let ea = self.read(p);
                if !self.allowed(ea) {
                    return self.raise(Fault::Acv, "execute");
                }
                self.write(ea, self.r[sr as usize]);
            }
            Lea { dr, off } => {
                self.r[dr as usize] = self.pc.wrapping_add(sext(off));
            }
            Jmp { base } => {
                self.pc = self.r[base as usize];
                if base == 7 {
                    self.pop_frame();
                }
            }
            Jsr { off } => {
                let target = self.pc.wrapping_add(sext(off));
                self.r[7] = self.pc;
                self.push_frame(self.fault_addr, target, FrameKind::Subroutine);
                self.pc = target;
            }
            Jsrr { base } => {
                let target = self.r[base as usize];
                self.r[7] = self.pc;
                self.push_frame(self.fault_addr, target, FrameKind::Subroutine);
                self.pc = target;
            }
            Trap { vect } => {
                if vect == 0x25 && !self.real_traps {
                    // virtual HALT: the machine stops with the PC back on the HALT
                    self.pc = self.fault_addr;
                    return StepOut::Halt;
                }
                self.info.trap_entry = Some(vect);
                self.enter(vect as u16, None, FrameKind::Trap);
            }
            Rti => {
                if !self.privileged_access() {
                    return self.raise(Fault::Privilege, "execute");
                }
                let sp = self.r[6];
                let npc = self.read(sp);
                let npsr = self.read(sp.wrapping_add(1));
                self.r[6] = sp.wrapping_add(2);
                self.pc = npc;
                self.psr = npsr;
                let to_user = self.user_mode();
                if to_user {
                    std::mem::swap(&mut self.saved_sp, &mut self.r[6]);
                }
                self.info.rti_to_user = Some(to_user);
                self.pop_frame();
            }
        }
        self.instructions = self.instructions.wrapping_add(1);
        StepOut::Ok
    }
}
