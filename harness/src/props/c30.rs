//! C30 — Reset restores a fresh machine and keeps configuration.
use crate::driver::*;
use crate::gen::exec::{gen_exec, ExecCfg};
use crate::props::recdev::*;
use crate::props::simrig::reg;
use crate::tape::Tape;
use lc3_ensemble::sim::debug::{Breakpoint, Comparator};
use lc3_ensemble::sim::device::{BufferedDisplay, BufferedKeyboard};
use lc3_ensemble::sim::mem::{MachineInitStrategy, Word};
use lc3_ensemble::sim::{InternalRegister, MemAccessCtx, SimFlags, Simulator};
use serde_json::{json, Value};
use std::sync::{Arc, Mutex};

#[derive(Clone, Debug)]
pub enum H {
    LoadAndRun(u64),
    Step(u32),
    SetReg(usize, u16),
    SetMem(u16, u16),
    FlipFlag(u8),
    AddBreakpoint(u16),
    RemoveBreakpoint(u16),
    AddDevice(u16),
    RemoveDevice(u16),
    Mmap(u16, u8),
    Munmap(u16),
    WritePsr(u16),
    AttachIo,
    /// attach a device without any port (an interrupt source that is only polled)
    AddPollDev,
}

/// A port-less device: counts how often it is polled.
struct PollCounter(Arc<std::sync::atomic::AtomicU64>);
impl lc3_ensemble::sim::device::ExternalDevice for PollCounter {
    fn io_read(&mut self, _: u16, _: bool) -> Option<u16> {
        None
    }
    fn io_write(&mut self, _: u16, _: u16) -> bool {
        false
    }
    fn io_reset(&mut self) {}
    fn poll_interrupt(&mut self) -> Option<lc3_ensemble::sim::device::Interrupt> {
        self.0.fetch_add(1, std::sync::atomic::Ordering::Relaxed);
        None
    }
}

pub fn decode(tape: &[u32]) -> (SimFlags, Vec<H>, Vec<u16>) {
    let mut t = Tape::new(tape);
    let init = if t.chance(1, 2) { MachineInitStrategy::Seeded { seed: t.raw() as u64 } } else { MachineInitStrategy::Known { value: t.u16() } };
    let flags = SimFlags { strict: t.chance(1, 4), use_real_traps: t.chance(1, 2), machine_init: init, debug_frames: t.chance(1, 2), ignore_privilege: t.chance(1, 4) };
    let prog = gen_exec(&mut t, &ExecCfg { allow_input: false, ..ExecCfg::default() }).unwrap();
    let n = 1 + t.pick(10);
    let mut h = vec![];
    for _ in 0..n {
        h.push(match t.pick(17) {
            0 | 1 => H::LoadAndRun(1 + t.pick(300) as u64),
            2 => H::Step(1 + t.pick(20) as u32),
            3 => H::SetReg(t.pick(8), t.u16()),
            4 => H::SetMem(*t.choose(&[0x0000u16, 0x0200, 0x2FFF, 0x3000, 0x8000, 0xFDFF, 0xFE00, 0xFFFF]), t.u16()),
            5 => H::FlipFlag(t.pick(4) as u8),
            6 => H::AddBreakpoint(0x3000 + t.pick(32) as u16),
            7 => H::RemoveBreakpoint(0x3000 + t.pick(32) as u16),
            8 => H::AddDevice(0xFE20 + t.pick(4) as u16),
            9 => H::RemoveDevice(3 + t.pick(3) as u16),
            10 => H::Mmap(*t.choose(&[0xFE30u16, 0xFE31, 0xFE32, 0xFE30, 0xFFFC, 0xFFFE]), t.pick(4) as u8),
            15 | 16 => H::AddPollDev,
            13 | 14 => H::Munmap(*t.choose(&[0xFE30u16, 0xFE31, 0xFE32, 0xFFFC, 0xFFFE, 0xFFFC, 0xFFFE])),
            11 => H::WritePsr(t.u16()),
            _ => H::AttachIo,
        });
    }
    (flags, h, prog.words)
}

fn ireg(k: u8) -> InternalRegister {
    match k {
        0 => InternalRegister::PC,
        1 => InternalRegister::PSR,
        2 => InternalRegister::MCR,
        _ => InternalRegister::SavedSP,
    }
}

pub fn check(tape: &[u32], st: &mut Stats) -> Result<(), String> {
    let (flags0, hist, words) = decode(tape);
    let mut sim = Simulator::new(flags0);
    let mcr = Arc::clone(sim.mcr());
    let log: Log = Arc::new(Mutex::new(vec![]));
    let om = MemAccessCtx::omnipotent();
    // model of the configuration that must survive
    let mut bps: Vec<u16> = vec![];
    // a new simulator maps the PSR at xFFFC and the MCR at xFFFE
    let mut iregs: Vec<(u16, u8)> = vec![(0xFFFC, 1), (0xFFFE, 2)];
    let mut unmapped_default = false;
    let mut devices: Vec<(u16, u16, u16)> = vec![]; // (id, port, tag)
    let mut pollers: Vec<(u16, Arc<std::sync::atomic::AtomicU64>)> = vec![];
    let mut ids_seen: Vec<u16> = vec![];
    let mut executed = false;
    let mut config_changed = false;
    let mut next_tag = 10;
    for h in &hist {
        match h {
            H::LoadAndRun(n) => {
                for (i, w) in words.iter().enumerate() {
                    sim.mem[0x3000 + i as u16].set(*w);
                }
                sim.pc = 0x3000;
                let before = sim.instructions_run;
                let _ = sim.run_with_limit(*n);
                executed |= sim.instructions_run != before;
            }
            H::Step(n) => {
                for _ in 0..*n {
                    let before = sim.instructions_run;
                    let _ = sim.step_in();
                    executed |= sim.instructions_run != before;
                }
            }
            H::SetReg(r, v) => sim.reg_file[reg(*r)].set(*v),
            H::SetMem(a, v) => sim.mem[*a].set(*v),
            H::FlipFlag(k) => {
                match k {
                    0 => sim.flags.strict = !sim.flags.strict,
                    1 => sim.flags.use_real_traps = !sim.flags.use_real_traps,
                    2 => sim.flags.debug_frames = !sim.flags.debug_frames,
                    _ => sim.flags.ignore_privilege = !sim.flags.ignore_privilege,
                }
                config_changed = true;
            }
            H::AddBreakpoint(a) => {
                sim.breakpoints.insert(Breakpoint::PC(*a));
                sim.breakpoints.insert(Breakpoint::Reg { reg: reg(1), value: Comparator::Never });
                if !bps.contains(a) {
                    bps.push(*a);
                }
                config_changed = true;
            }
            H::RemoveBreakpoint(a) => {
                sim.breakpoints.remove(&Breakpoint::PC(*a));
                bps.retain(|x| x != a);
            }
            H::AddDevice(port) => {
                let tag = next_tag;
                next_tag += 1;
                if let Ok(id) = sim.device_handler.add_device(RecDev { tag, log: Arc::clone(&log), accept: true }, &[*port]) {
                    if ids_seen.contains(&id) {
                        return Err(format!("add_device handed out the id {id} a second time (ids so far: {ids_seen:?})"));
                    }
                    ids_seen.push(id);
                    devices.push((id, *port, tag));
                    config_changed = true;
                }
            }
            H::RemoveDevice(id) => {
                sim.device_handler.remove_device(*id);
                devices.retain(|d| d.0 != *id);
                pollers.retain(|d| d.0 != *id);
            }
            H::AddPollDev => {
                let n = Arc::new(std::sync::atomic::AtomicU64::new(0));
                if let Ok(id) = sim.device_handler.add_device(PollCounter(Arc::clone(&n)), &[]) {
                    if ids_seen.contains(&id) {
                        return Err(format!("add_device handed out the id {id} a second time (ids so far: {ids_seen:?})"));
                    }
                    ids_seen.push(id);
                    pollers.push((id, n));
                    config_changed = true;
                }
            }
            H::Mmap(port, k) => {
                if sim.mmap_internal(*port, ireg(*k)).is_ok() {
                    iregs.push((*port, *k));
                    config_changed = true;
                }
            }
            H::Munmap(port) => {
                let was = iregs.iter().any(|i| i.0 == *port);
                if sim.munmap_internal(*port) != was {
                    return Err(format!("munmap_internal(x{port:04X}) returned {} although the port was {}mapped", !was, if was { "" } else { "not " }));
                }
                iregs.retain(|i| i.0 != *port);
                if *port >= 0xFFFC {
                    unmapped_default = true;
                    config_changed = true;
                }
            }
            H::WritePsr(v) => {
                let _ = sim.write_mem(0xFFFC, Word::new_init(*v), om);
            }
            H::AttachIo => {
                sim.device_handler.set_keyboard(BufferedKeyboard::default());
                sim.device_handler.set_display(BufferedDisplay::default());
                config_changed = true;
            }
        }
    }
    let flags_before = sim.flags;
    sim.reset();
    // --- state equals a new simulator with the same flags
    let fresh = Simulator::new(flags_before);
    if sim.flags != flags_before {
        return Err(format!("reset changed the flags from {flags_before:?} to {:?}", sim.flags));
    }
    for i in 0..8 {
        let (a, b) = (sim.reg_file[reg(i)].verif_parts(), fresh.reg_file[reg(i)].verif_parts());
        if a != b {
            return Err(format!("after reset R{i} = x{:04X}/init x{:04X}, a new simulator has x{:04X}/init x{:04X}", a.0, a.1, b.0, b.1));
        }
    }
    if sim.pc != fresh.pc {
        return Err(format!("after reset PC = x{:04X}, a new simulator has x{:04X}", sim.pc, fresh.pc));
    }
    if sim.psr().get() != fresh.psr().get() {
        return Err(format!("after reset PSR = x{:04X}, a new simulator has x{:04X}", sim.psr().get(), fresh.psr().get()));
    }
    if sim.frame_stack.len() != 0 || sim.instructions_run != 0 || sim.hit_halt() || sim.hit_breakpoint() {
        return Err(format!("after reset: frame depth {}, instructions_run {}, hit_halt {}, hit_breakpoint {}", sim.frame_stack.len(), sim.instructions_run, sim.hit_halt(), sim.hit_breakpoint()));
    }
    if sim.frame_stack.frames().is_some() != flags_before.debug_frames {
        return Err(format!("after reset frames() is {:?} although debug_frames = {}", sim.frame_stack.frames().map(|f| f.len()), flags_before.debug_frames));
    }
    for a in 0..=u16::MAX {
        let (x, y) = (sim.mem[a].verif_parts(), fresh.mem[a].verif_parts());
        if x != y {
            return Err(format!("after reset mem[x{a:04X}] = x{:04X}/init x{:04X}, a new simulator has x{:04X}/init x{:04X}", x.0, x.1, y.0, y.1));
        }
    }
    // saved stack pointer through a temporary mapping on both machines
    let probe = 0xFE3F;
    let mut fresh = fresh;
    if sim.mmap_internal(probe, InternalRegister::SavedSP).is_ok() && fresh.mmap_internal(probe, InternalRegister::SavedSP).is_ok() {
        let (a, b) = (sim.read_mem(probe, om).map(|w| w.get()).ok(), fresh.read_mem(probe, om).map(|w| w.get()).ok());
        if a != b {
            return Err(format!("after reset the saved stack pointer is {a:04X?}, a new simulator has {b:04X?}"));
        }
        sim.munmap_internal(probe);
        sim.mem[probe].set(0);
    }
    // --- configuration is kept
    if !Arc::ptr_eq(&mcr, sim.mcr()) {
        return Err("reset replaced the MCR handle".into());
    }
    for a in &bps {
        if !sim.breakpoints.contains(&Breakpoint::PC(*a)) {
            return Err(format!("reset dropped the breakpoint at x{a:04X}"));
        }
    }
    if sim.breakpoints.iter().filter(|b| matches!(b, Breakpoint::PC(_))).count() != bps.len() {
        return Err("breakpoint set differs after reset".into());
    }
    for (port, k) in &iregs {
        if sim.mmap_internal(*port, ireg(*k)).is_ok() {
            return Err(format!("reset dropped the internal-register mapping at x{port:04X}"));
        }
        let v = sim.read_mem(*port, om).map(|w| w.get()).ok();
        let want = match k {
            0 => Some(sim.pc),
            1 => Some(sim.psr().get()),
            2 => Some(if sim.mcr().load(std::sync::atomic::Ordering::Relaxed) { 0x8000 } else { 0 }),
            _ => None,
        };
        if want.is_some() && v != want {
            return Err(format!("after reset reading the {:?} mapping at x{port:04X} gives {v:04X?}, expected {want:04X?}", ireg(*k)));
        }
    }
    // ... and nothing else is mapped: ports the history left unmapped (including a default mapping it removed) stay unmapped
    for port in [0xFE30u16, 0xFE31, 0xFE32, 0xFFFC, 0xFFFE] {
        let want = iregs.iter().any(|i| i.0 == port);
        let got = sim.munmap_internal(port);
        if got != want {
            return Err(format!("after reset x{port:04X} is {}mapped to an internal register, before reset it was {}mapped", if got { "" } else { "not " }, if want { "" } else { "not " }));
        }
    }
    log.lock().unwrap().clear();
    for (_, port, tag) in &devices {
        let v = sim.read_mem(*port, MemAccessCtx { io_effects: true, ..om }).map(|w| w.get()).ok();
        if v != Some(RecDev::value(*tag, *port)) {
            return Err(format!("after reset the device attached at x{port:04X} no longer answers (read {v:04X?})"));
        }
    }
    // port-less devices are still attached: one poll of the handler reaches each of them once
    if !pollers.is_empty() {
        use lc3_ensemble::sim::device::ExternalDevice;
        let before: Vec<u64> = pollers.iter().map(|p| p.1.load(std::sync::atomic::Ordering::Relaxed)).collect();
        let _ = sim.device_handler.poll_interrupt();
        for ((id, n), b) in pollers.iter().zip(before) {
            let now = n.load(std::sync::atomic::Ordering::Relaxed);
            if now != b + 1 {
                return Err(format!("after reset the port-less device with id {id} was polled {} times by one poll of the device handler (it is no longer attached)", now - b));
            }
        }
        st.class("portless-device-attached");
    }
    if executed {
        st.class("executed-before-reset");
    }
    if config_changed {
        st.class("configuration-changed");
    }
    if !devices.is_empty() {
        st.class("device-attached");
    }
    if iregs.iter().any(|i| i.0 < 0xFFFC) {
        st.class("ireg-mapped");
    }
    if unmapped_default && iregs.iter().filter(|i| i.0 >= 0xFFFC).count() < 2 {
        st.class("default-ireg-mapping-removed");
    }
    if executed && config_changed {
        st.nontrivial(tape);
        if st.want_sample() {
            st.sample(json!({"flags": format!("{flags0:?}"), "history": hist.iter().map(|h| format!("{h:?}")).collect::<Vec<_>>()}));
        }
    }
    Ok(())
}

pub fn describe(tape: &[u32]) -> Value {
    let (flags, hist, _) = decode(tape);
    json!({"flags": format!("{flags:?}"), "history": hist.iter().map(|h| format!("{h:?}")).collect::<Vec<_>>()})
}

pub fn run(ctx: &Ctx) -> Outcome {
    let mut out = Outcome::new(
        "histories of loading and running generated programs, single steps, register/memory/PSR writes, flag flips (strict, real traps, debug frames, privilege), breakpoint edits, recording-device attach/remove, port-less (polled-only) device attachment, keyboard/display attachment and internal-register mappings and unmappings (including the default PSR/MCR ports), followed by reset; \
         afterwards registers, all 65536 words (value and init mask, through the hook), PC, PSR, saved SP, frame depth/list presence, instruction count and halt/breakpoint status equal those of Simulator::new with the same flags (Known and Seeded strategies), \
         and the flags, breakpoints, the MCR Arc (ptr_eq), internal-register mappings (exactly the mapped set of the history: ports it unmapped stay unmapped) and attached devices (still answering on their ports) are kept; non-trivial = history executed >= 1 instruction and changed >= 1 configuration item; distinct by tape",
    );
    let cfg = TapeCfg::new(ctx, 600, 20_000, 700);
    out.shards = cfg.shards;
    out.absorb(tape_search(ctx, "main", &cfg, check, describe));
    out.essential = ["executed-before-reset", "configuration-changed", "device-attached", "ireg-mapped", "default-ireg-mapping-removed", "portless-device-attached"].iter().map(|s| s.to_string()).collect();
    out
}

pub fn replay(_ctx: &Ctx, case: &Value, st: &mut Stats) -> Result<(), String> {
    let tape: Vec<u32> = serde_json::from_value(case["tape"].clone()).map_err(|e| e.to_string())?;
    check(&tape, st)
}
