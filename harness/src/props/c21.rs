//! C21 — External references are never silently left unresolved.
use crate::driver::*;
use crate::gen::link::{build_obj, gen_link_set, LinkCfg, SrcFile};
use crate::model::stmt::MKind;
use crate::tape::Tape;
use lc3_ensemble::asm::{assemble_debug, ObjectFile};
use lc3_ensemble::parse::parse_ast;
use lc3_ensemble::sim::{SimErr, Simulator};
use serde_json::{json, Value};
use std::collections::{BTreeMap, BTreeSet};

pub const SIG_NODEBUG: &str = "nodebug-external-dropped";

pub fn decode(tape: &[u32]) -> Option<SrcFile> {
    let mut t = Tape::new(tape);
    let files = gen_link_set(&mut t, &LinkCfg { max_files: 3, conflict_8: 0, overlaps: false, wild_render: false });
    // the file with the most external uses
    files.into_iter().max_by_key(|f| f.model.relocs.len())
}

fn load(o: &ObjectFile) -> Result<Result<(), String>, String> {
    no_panic("load_obj_file", || {
        let mut sim = Simulator::new(Default::default());
        match sim.load_obj_file(o) {
            Ok(()) => Ok(()),
            Err(SimErr::UnresolvedExternal(l)) => Err(format!("UnresolvedExternal({l})")),
            Err(e) => Err(format!("other error {e:?}")),
        }
    })
}

pub fn check_file(f: &SrcFile, debug: bool, st: &mut Stats) -> Result<(), String> {
    let uses: BTreeMap<u16, String> = f.model.relocs.iter().cloned().collect();
    let exts: BTreeSet<String> = f.model.labels.iter().filter(|(_, i)| i.external).map(|(n, _)| n.clone()).collect();
    let o = build_obj(f, debug)?;
    if !uses.is_empty() {
        match load(&o)? {
            Err(m) if m.starts_with("UnresolvedExternal") => {}
            Err(m) => return Err(format!("loading a file with an unresolved external use failed with {m} instead of UnresolvedExternal")),
            Ok(()) => {
                return Err(format!(
                    "a file (debug symbols: {debug}) whose .fill words {:?} refer to undefined external labels loaded without error",
                    uses.iter().map(|(a, l)| format!("x{a:04X}->{l}")).collect::<Vec<_>>()
                ))
            }
        }
    }
    // definer of every external label of the file
    let mut src = String::from(".orig xE000\n");
    let mut def_addr: BTreeMap<String, u16> = BTreeMap::new();
    for (i, e) in exts.iter().enumerate() {
        src.push_str(&format!("{e} .fill x1234\n"));
        def_addr.insert(e.clone(), 0xE000 + i as u16);
    }
    src.push_str("HALT\n.end\n");
    for definer_debug in [true, debug] {
        let ast = parse_ast(&src).map_err(|e| format!("definer: {e:?}"))?;
        let d = if definer_debug { assemble_debug(ast, &src) } else { lc3_ensemble::asm::assemble(ast) }.map_err(|e| format!("definer: {e:?}"))?;
        for f_first in [true, false] {
            let (x, y) = if f_first { (o.clone(), d.clone()) } else { (d.clone(), o.clone()) };
            let l = no_panic("link", || ObjectFile::link(x, y))?.map_err(|e| format!("linking with the defining file failed: {:?}", e.kind))?;
            let img: BTreeMap<u16, Option<u16>> = l.addr_iter().collect();
            for (a, lab) in &uses {
                let want = def_addr[lab];
                if img.get(a) != Some(&Some(want)) {
                    return Err(format!(
                        "after linking (file {} definer, debug symbols file/definer: {debug}/{definer_debug}) the .fill word at x{a:04X} holds {:?}, the label {lab} is at x{want:04X}",
                        if f_first { "+" } else { "after" },
                        img.get(a)
                    ));
                }
            }
            if !uses.is_empty() || !exts.is_empty() {
                if let Err(m) = load(&l)? {
                    return Err(format!("after linking the file that defines every external label, loading still fails: {m}"));
                }
            }
        }
    }
    // a second user of the same external labels: whatever the order in which the two users and the definer are
    // linked, every use ends up holding the label's address; while the definer is missing, loading fails
    if !exts.is_empty() {
        let mut u2 = String::new();
        let mut uses2: BTreeMap<u16, String> = BTreeMap::new();
        for e in &exts {
            u2.push_str(&format!(".external {e}\n"));
        }
        u2.push_str(".orig xD000\n");
        for (i, e) in exts.iter().enumerate() {
            u2.push_str(&format!(".fill {e}\n"));
            uses2.insert(0xD000 + i as u16, e.clone());
        }
        u2.push_str(".end\n");
        let asm = |src: &str| -> Result<ObjectFile, String> {
            let ast = parse_ast(src).map_err(|e| format!("helper file: {e:?}"))?;
            if debug { assemble_debug(ast, src) } else { lc3_ensemble::asm::assemble(ast) }.map_err(|e| format!("helper file: {e:?}"))
        };
        let (u2o, d) = (asm(&u2)?, asm(&src)?);
        let link = |x: &ObjectFile, y: &ObjectFile, what: &str| -> Result<ObjectFile, String> {
            no_panic("link", || ObjectFile::link(x.clone(), y.clone()))?.map_err(|e| format!("{what}: link failed: {:?}", e.kind))
        };
        let all_uses: Vec<(u16, String)> = uses.iter().chain(uses2.iter()).map(|(a, l)| (*a, l.clone())).collect();
        let orders: [(&str, [usize; 3], bool); 6] = [
            ("(file+user2)+definer", [0, 1, 2], true),
            ("definer+(file+user2)", [0, 1, 2], false),
            ("(user2+file)+definer", [1, 0, 2], true),
            ("(file+definer)+user2", [0, 2, 1], true),
            ("user2+(definer+file)", [2, 0, 1], false),
            ("(definer+user2)+file", [2, 1, 0], true),
        ];
        let objs = [&o, &u2o, &d];
        for (name, ix, inner_first) in orders {
            let inner = link(objs[ix[0]], objs[ix[1]], name)?;
            if ix[2] == 2 {
                // both users linked, the definer is still missing
                match load(&inner)? {
                    Err(m) if m.starts_with("UnresolvedExternal") => {}
                    other => return Err(format!("{name}: the two users linked without the definer load with {other:?} instead of UnresolvedExternal")),
                }
            }
            let l = if inner_first { link(&inner, objs[ix[2]], name)? } else { link(objs[ix[2]], &inner, name)? };
            let img: BTreeMap<u16, Option<u16>> = l.addr_iter().collect();
            for (a, lab) in &all_uses {
                let want = def_addr[lab];
                if img.get(a) != Some(&Some(want)) {
                    return Err(format!("{name} (debug symbols: {debug}): the .fill word at x{a:04X} holds {:?}, the label {lab} is at x{want:04X}", img.get(a)));
                }
            }
            if let Err(m) = load(&l)? {
                return Err(format!("{name}: every external label is defined, loading still fails: {m}"));
            }
        }
        st.class("two-users-and-definer-in-6-orders");
    }
    Ok(())
}

pub fn check(tape: &[u32], st: &mut Stats) -> Result<(), String> {
    let Some(f) = decode(tape) else {
        st.class("no-file");
        return Ok(());
    };
    if f.model.relocs.is_empty() {
        st.class("no-external-use");
    } else {
        st.class("has-external-use");
    }
    // placement of the declaration relative to the uses
    let mut first_use: BTreeMap<String, usize> = BTreeMap::new();
    let mut decl: BTreeMap<String, usize> = BTreeMap::new();
    for (i, s) in f.prog.iter().enumerate() {
        match &s.kind {
            MKind::External(l) => {
                decl.entry(l.to_uppercase()).or_insert(i);
            }
            k => {
                if let Some(l) = k.label_operand() {
                    first_use.entry(l.to_uppercase()).or_insert(i);
                }
            }
        }
    }
    let mut after = false;
    for (l, d) in &decl {
        if let Some(u) = first_use.get(l) {
            if d > u {
                after = true;
                st.class("declaration-after-use");
            } else {
                st.class("declaration-before-use");
            }
        }
    }
    check_file(&f, true, st)?;
    if known("C21", SIG_NODEBUG) {
        if !f.model.relocs.is_empty() {
            st.excluded_known += 1;
        }
    } else {
        st.class("nodebug-variant");
        check_file(&f, false, st)?;
    }
    if !f.model.relocs.is_empty() {
        if after {
            st.nontrivial(&f.rendered.text);
        }
        if after && st.want_sample() {
            st.sample(json!({"source": f.rendered.text}));
        }
    }
    Ok(())
}

pub fn describe(tape: &[u32]) -> Value {
    json!({"source": decode(tape).map(|f| f.rendered.text)})
}

pub fn run(ctx: &Ctx) -> Outcome {
    let mut out = Outcome::new(
        "generated files with .external declarations placed before, between and after their .fill uses, assembled with debug symbols (and without, unless that variant is a listed known finding); \
         loading must fail with UnresolvedExternal when a .fill word refers to an undefined external; after linking a definer (both orders, definer with/without debug symbols) every such word holds the label's address and loading succeeds; with a second user file of the same labels, 6 orders/bracketings of file, user and definer (users linked first must still fail to load, the complete link must hold the addresses in every use); \
         non-trivial = file has an external use whose declaration comes after it; distinct by source text",
    );
    let cfg = TapeCfg::new(ctx, 2500, 60_000, 1200);
    out.shards = cfg.shards;
    out.absorb(tape_search(ctx, "main", &cfg, check, describe));
    out.essential = ["has-external-use", "declaration-after-use", "declaration-before-use", "two-users-and-definer-in-6-orders"].iter().map(|s| s.to_string()).collect();
    out.assumptions.push("the variant 'assembled without debug symbols and uses an external' is excluded while listed as known finding C21/nodebug-external-dropped; its witness is replayed on every run".into());
    out
}

pub fn replay(_ctx: &Ctx, case: &Value, st: &mut Stats) -> Result<(), String> {
    if let Some(src) = case["source"].as_str() {
        let (prog, layout) = crate::model::stmt::parse_source(src)?;
        let model = crate::model::asm::asm_model(&prog);
        let f = SrcFile { prog, rendered: crate::model::stmt::Rendered { text: src.to_string(), layout, features: Default::default() }, model };
        return check_file(&f, case["debug"].as_bool().unwrap_or(true), st);
    }
    let tape: Vec<u32> = serde_json::from_value(case["tape"].clone()).map_err(|e| e.to_string())?;
    check(&tape, st)
}
