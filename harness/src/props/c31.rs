//! C31 — Seeded simulations are reproducible.
use crate::driver::*;
use crate::gen::exec::{gen_exec, ExecCfg, ExecProg};
use crate::model::cpu::*;
use crate::props::simrig::*;
use crate::tape::Tape;
use lc3_ensemble::sim::device::TimerDevice;
use lc3_ensemble::sim::mem::MachineInitStrategy;
use lc3_ensemble::sim::{SimFlags, Simulator};
use serde_json::{json, Value};

#[derive(Clone, Debug)]
pub struct Case {
    pub prog: ExecProg,
    pub real: bool,
    pub init: MachineInitStrategy,
    pub timer: Option<(u64, u32, u32, u8)>,
    /// write the timer range as a..b+1 instead of a..=b
    pub half_open: bool,
    /// what follows the first execution: 0 nothing, 1 the object file below is loaded over the used machine and run,
    /// 2 reset(), then loaded and run
    pub phase2: usize,
    /// the program again, with some runs of words replaced by reserved (.blkw) words
    pub reload: Vec<Option<u16>>,
    /// the timer is created with the exact count `a` and widened to its range with set_range before it is attached
    pub widened: bool,
}

pub fn decode(tape: &[u32]) -> Case {
    let mut t = Tape::new(tape);
    let prog = gen_exec(&mut t, &ExecCfg::default()).unwrap();
    let real = t.chance(1, 2);
    let init = if t.chance(3, 4) { MachineInitStrategy::Seeded { seed: ((t.raw() as u64) << 32) | t.raw() as u64 } } else { MachineInitStrategy::Known { value: t.u16() } };
    let timer = t.chance(2, 3).then(|| {
        let a = 1 + t.pick(40) as u32;
        (t.raw() as u64, a, a + t.pick(30) as u32, t.pick(8) as u8)
    });
    let half_open = t.chance(1, 2);
    let phase2 = t.pick(3);
    let mut reload: Vec<Option<u16>> = prog.words.iter().map(|w| Some(*w)).collect();
    if phase2 != 0 {
        let mut left = 0;
        for w in reload.iter_mut() {
            if left == 0 && t.chance(1, 6) {
                left = 1 + t.pick(4);
            }
            if left > 0 {
                *w = None;
                left -= 1;
            }
        }
    }
    let widened = t.chance(1, 3);
    Case { prog, real, init, timer, half_open, phase2, reload, widened }
}

fn mem_digest(sim: &Simulator) -> u64 {
    let mut h: u64 = 0xcbf29ce484222325;
    for a in 0..=u16::MAX {
        let w = sim.mem[a];
        let (d, i) = w.verif_parts();
        h = (h ^ d as u64).wrapping_mul(0x100000001b3);
        h = (h ^ i as u64).wrapping_mul(0x100000001b3);
    }
    h
}

/// One complete run: the trace of every step.
fn trace(c: &Case, st: &mut Stats) -> Vec<(u16, u16, [u16; 8], u64, u64)> {
    let spec = spec_for_prog(&c.prog, c.real, false, c.init);
    let mut rig = build_rig(&spec);
    if let Some((seed, a, b, prio)) = c.timer {
        let mut tm = if c.widened {
            // a seeded timer that starts with an exact count and is given its range afterwards
            let mut tm = TimerDevice::new(Some(seed), a..=a, 0x81, prio);
            if c.half_open {
                tm.set_range(a..b + 1);
            } else {
                tm.set_range(a..=b);
            }
            tm.reset_remaining();
            st.class("timer-created-exact-then-widened");
            tm
        } else if c.half_open {
            TimerDevice::new(Some(seed), a..b + 1, 0x81, prio)
        } else {
            TimerDevice::new(Some(seed), a..=b, 0x81, prio)
        };
        tm.enabled = true;
        rig.sim.device_handler.add_device(tm, &[]).unwrap();
    }
    rig.sim.mcr().store(true, std::sync::atomic::Ordering::Relaxed);
    let mut out = vec![];
    let mut interrupts = 0;
    for step in 0..40_000usize {
        let (pc0, n0, d0) = (rig.sim.pc, rig.sim.instructions_run, rig.sim.frame_stack.len());
        let r = rig.sim.step_in();
        let mut regs = [0u16; 8];
        for i in 0..8 {
            regs[i] = rig.sim.reg_file[reg(i)].get();
        }
        let digest = if step % 64 == 0 || r.is_err() { mem_digest(&rig.sim) } else { 0 };
        out.push((rig.sim.pc, rig.sim.psr().get(), regs, rig.sim.instructions_run, digest));
        if rig.sim.instructions_run == n0 && rig.sim.frame_stack.len() == d0 + 1 {
            interrupts += 1;
        }
        if r.is_err() || !rig.sim.mcr().load(std::sync::atomic::Ordering::Relaxed) || (!c.real && rig.sim.mem[pc0].get() == 0xF025 && rig.sim.pc == pc0 && rig.sim.instructions_run == n0) {
            break;
        }
    }
    if c.phase2 != 0 {
        // the history goes on: (reset,) load an object file with reserved words over the machine the program has
        // written to, and execute again
        out.push((0, 0, [0; 8], 0, mem_digest(&rig.sim)));
        if c.phase2 == 2 {
            rig.sim.reset();
            out.push((rig.sim.pc, rig.sim.psr().get(), [0; 8], 1, mem_digest(&rig.sim)));
        }
        let mut src = format!(".orig x{:04X}\n", c.prog.origin);
        for w in &c.reload {
            match w {
                Some(v) => src.push_str(&format!(".fill x{v:04X}\n")),
                None => src.push_str(".blkw 1\n"),
            }
        }
        src.push_str(".end\n");
        let obj = lc3_ensemble::asm::assemble(lc3_ensemble::parse::parse_ast(&src).expect("reload source parses")).expect("reload source assembles");
        rig.sim.load_obj_file(&obj).expect("reload object loads");
        out.push((rig.sim.pc, rig.sim.psr().get(), [0; 8], 2, mem_digest(&rig.sim)));
        rig.sim.pc = c.prog.origin;
        rig.sim.mcr().store(true, std::sync::atomic::Ordering::Relaxed);
        for step in 0..1500usize {
            let (pc0, n0) = (rig.sim.pc, rig.sim.instructions_run);
            let r = rig.sim.step_in();
            let mut regs = [0u16; 8];
            for i in 0..8 {
                regs[i] = rig.sim.reg_file[reg(i)].get();
            }
            let digest = if step % 64 == 0 || r.is_err() { mem_digest(&rig.sim) } else { 0 };
            out.push((rig.sim.pc, rig.sim.psr().get(), regs, rig.sim.instructions_run, digest));
            if r.is_err() || !rig.sim.mcr().load(std::sync::atomic::Ordering::Relaxed) || (!c.real && rig.sim.mem[pc0].get() == 0xF025 && rig.sim.pc == pc0 && rig.sim.instructions_run == n0) {
                break;
            }
        }
        st.class(if c.phase2 == 2 { "history:run-reset-load-run" } else { "history:run-reload-run" });
    }
    let disp = rig.display.as_ref().unwrap().read().unwrap().clone();
    out.push((0, 0, [0; 8], disp.len() as u64, fxhash(&disp)));
    out.push((0, 0, [0; 8], 0, mem_digest(&rig.sim)));
    if interrupts > 0 {
        st.class("timer-interrupt-fired");
    }
    out
}

pub fn check_known(value: u16) -> Result<(), String> {
    let other = value ^ 0x5A5A;
    let mk = |v: u16| Simulator::new(SimFlags { machine_init: MachineInitStrategy::Known { value: v }, ..Default::default() });
    let (a, b) = (mk(value), mk(other));
    for i in 0..8 {
        let g = a.reg_file[reg(i)].get();
        if g != value {
            return Err(format!("Known{{{value:#06x}}}: R{i} = x{g:04X}"));
        }
    }
    let mut os_words = 0;
    for addr in 0..=u16::MAX {
        let (x, y) = (a.mem[addr].get(), b.mem[addr].get());
        if addr >= IO_START {
            if x != 0 {
                return Err(format!("Known{{{value:#06x}}}: I/O page word x{addr:04X} = x{x:04X}, expected 0"));
            }
        } else if addr >= USER_START {
            if x != value {
                return Err(format!("Known{{{value:#06x}}}: mem[x{addr:04X}] = x{x:04X}"));
            }
        } else if x != value {
            // below user space a word may differ from the fill value only if it belongs to the OS image,
            // i.e. it is the same whatever the fill value is
            if x != y {
                return Err(format!("Known{{{value:#06x}}}: mem[x{addr:04X}] = x{x:04X} is neither the fill value nor part of the OS image (x{y:04X} with another fill value)"));
            }
            os_words += 1;
        }
    }
    if os_words > 0x0800 {
        return Err(format!("Known{{{value:#06x}}}: {os_words} words below x3000 do not hold the fill value (the OS image is much smaller)"));
    }
    Ok(())
}

pub fn check(tape: &[u32], st: &mut Stats) -> Result<(), String> {
    let c = decode(tape);
    let mut local = Stats::default();
    let t1 = trace(&c, &mut local);
    let t2 = trace(&c, &mut Stats::default());
    if t1.len() != t2.len() {
        return Err(format!("two runs of one configuration have different lengths: {} vs {} steps", t1.len(), t2.len()));
    }
    for (i, (a, b)) in t1.iter().zip(&t2).enumerate() {
        if a != b {
            return Err(format!("two runs of one configuration diverge at step {i}: PC x{:04X}/x{:04X}, PSR x{:04X}/x{:04X}, regs {:04X?}/{:04X?}, instructions {}/{}, memory digest {:x}/{:x}", a.0, b.0, a.1, b.1, a.2, b.2, a.3, b.3, a.4, b.4));
        }
    }
    if let MachineInitStrategy::Known { value } = c.init {
        st.class("known-init");
        check_known(value)?;
    } else {
        st.class("seeded-init");
    }
    for k in ["history:run-reset-load-run", "history:run-reload-run", "timer-created-exact-then-widened"] {
        if local.classes.contains_key(k) {
            st.class(k);
        }
    }
    let fired = local.classes.contains_key("timer-interrupt-fired");
    if fired {
        st.class("timer-interrupt-fired");
    }
    if fired || matches!(c.init, MachineInitStrategy::Seeded { .. }) {
        st.nontrivial(tape);
        if st.want_sample() {
            st.sample(json!({"program": describe_prog(&c.prog), "init": format!("{:?}", c.init), "timer(seed,min,max,priority)": c.timer, "half_open_range": c.half_open, "steps": t1.len()}));
        }
    }
    Ok(())
}

pub fn describe(tape: &[u32]) -> Value {
    let c = decode(tape);
    json!({"program": describe_prog(&c.prog), "init": format!("{:?}", c.init), "timer": c.timer, "real_traps": c.real})
}

pub fn run(ctx: &Ctx) -> Outcome {
    let mut out = Outcome::new(
        "generated programs x 64-bit seeds x seeded timer ranges (a third of the timers are created with an exact count and widened with set_range afterwards; vector x81 without handler, so the OS's missing-handler routine runs) x real/virtual traps; two independently built simulators must produce identical traces: per step PC, PSR, R0-R7, instruction count, a digest of all 65536 words incl. initialisation masks every 64 steps, final output and final memory digest; in two thirds of the cases the history goes on after the program has ended - (reset,) an object file with the program and some reserved (.blkw) words is loaded over the used machine and up to 1500 more steps are traced; \
         Known{v}: every register and every word of x3000-xFDFF equals v, the I/O page is zero, and a word below x3000 may differ from v only if it is identical for another fill value (OS image); non-trivial = Seeded initialisation or a timer interrupt fired; distinct by tape",
    );
    let mut cfg = TapeCfg::new(ctx, 120, 5_000, 600);
    // a reproducibility failure is not a deterministic function of the tape: keep the shrink phase short
    cfg.shrink_iters = 300;
    out.shards = cfg.shards;
    out.absorb(tape_search(ctx, "main", &cfg, check, describe));
    out.essential = vec!["seeded-init".into(), "known-init".into(), "timer-interrupt-fired".into(), "history:run-reset-load-run".into(), "history:run-reload-run".into(), "timer-created-exact-then-widened".into()];
    out
}

pub fn replay(_ctx: &Ctx, case: &Value, st: &mut Stats) -> Result<(), String> {
    let tape: Vec<u32> = serde_json::from_value(case["tape"].clone()).map_err(|e| e.to_string())?;
    check(&tape, st)
}
