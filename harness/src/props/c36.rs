//! C36 — Printed statements reparse to the same statement.
use crate::driver::*;
use crate::gen::prog::{gen_freeform, ProgCfg};
use crate::model::stmt::*;
use crate::tape::Tape;
use lc3_ensemble::parse::parse_ast;
use serde_json::{json, Value};

fn allowed_string(s: &str) -> bool {
    s.chars().all(|c| (' '..='~').contains(&c) || matches!(c, '\t' | '\n' | '\r' | '\0'))
}

pub fn decode(tape: &[u32]) -> (Vec<MStmt>, Rendered) {
    let mut t = Tape::new(tape);
    let cfg = ProgCfg { max_stmts: 30, big: false, wild_strings: true, ..ProgCfg::default() };
    let mut prog = gen_freeform(&mut t, &cfg, false);
    // property domain: printable ASCII, tab, newline, carriage return, NUL in string literals
    for s in prog.iter_mut() {
        if let MKind::Stringz(x) = &mut s.kind {
            if !allowed_string(x) {
                *x = x.chars().filter(|c| (' '..='~').contains(c) || matches!(c, '\t' | '\n' | '\r' | '\0')).collect();
            }
        }
    }
    let r = render(&prog, &mut t, RenderOpts { plain: false, wild_comments: false });
    (prog, r)
}

pub fn check_stmt_text(original: &lc3_ensemble::ast::asm::Stmt) -> Result<(), String> {
    let printed = original.to_string();
    let re = parse_ast(&printed).map_err(|e| format!("printed statement {printed:?} does not parse: {e:?}"))?;
    if re.len() != 1 {
        return Err(format!("printed statement {printed:?} reparses to {} statements", re.len()));
    }
    let a = from_real(original);
    let b = from_real(&re[0]);
    if a != b {
        return Err(format!("printed statement {printed:?} reparses to {b:?}, original was {a:?}"));
    }
    Ok(())
}

pub fn check(tape: &[u32], st: &mut Stats) -> Result<(), String> {
    let (prog, r) = decode(tape);
    let ast = match parse_ast(&r.text) {
        Ok(a) => a,
        Err(_) => {
            // parser defects are C03's business
            st.class("source-did-not-parse");
            return Ok(());
        }
    };
    st.evaluations += ast.len().saturating_sub(1) as u64;
    for (w, s) in prog.iter().zip(&ast) {
        let nt = w.kind.label_operand().is_some()
            || matches!(&w.kind, MKind::Add(_, _, Src2::Imm(v)) | MKind::And(_, _, Src2::Imm(v)) | MKind::Ldr(_, _, v) | MKind::Str(_, _, v) if *v < 0)
            || matches!(&w.kind, MKind::Stringz(x) if x.chars().any(|c| matches!(c, '"' | '\\' | '\n' | '\r' | '\t' | '\0')));
        st.class(&format!("kind:{}", w.kind.name()));
        if nt {
            st.nontrivial(&(&w.labels, &w.kind));
            if st.want_sample() {
                st.sample(json!({"printed": s.to_string()}));
            }
        }
        check_stmt_text(s)?;
    }
    Ok(())
}

pub fn describe(tape: &[u32]) -> Value {
    json!({"source": decode(tape).1.text})
}

pub fn run(ctx: &Ctx) -> Outcome {
    let mut out = Outcome::new(
        "statements obtained by parsing generated free-form programs (every opcode, alias, directive; labels; strings restricted to printable ASCII, tab, LF, CR, NUL); \
         each is printed with Display and the text parsed again: exactly one statement, equal in labels, kind and operand values; an evaluation is one statement; \
         non-trivial = statement has a label operand, a negative immediate, or a string needing an escape; distinct by (labels, statement)",
    );
    let cfg = TapeCfg::new(ctx, 1500, 40_000, 3000);
    out.shards = cfg.shards;
    out.absorb(tape_search(ctx, "main", &cfg, check, describe));
    out.essential = ["kind:.stringz", "kind:TRAP", "kind:.orig", "kind:.blkw", "kind:.fill", "kind:.fill-label", "kind:NOP", "kind:BR", "kind:.external", "kind:PUTSP"].iter().map(|s| s.to_string()).collect();
    out.forbidden = vec![];
    out
}

pub fn replay(_ctx: &Ctx, case: &Value, st: &mut Stats) -> Result<(), String> {
    if let Some(src) = case["source"].as_str() {
        let ast = parse_ast(src).map_err(|e| format!("{e:?}"))?;
        for s in &ast {
            check_stmt_text(s)?;
        }
        return Ok(());
    }
    let tape: Vec<u32> = serde_json::from_value(case["tape"].clone()).map_err(|e| e.to_string())?;
    check(&tape, st)
}
