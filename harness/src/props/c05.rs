//! C05 — Numeric and register tokens denote exactly their written value.
use crate::driver::*;
use crate::model::stmt::*;
use crate::tape::Tape;
use lc3_ensemble::parse::lex::Token;
use lc3_ensemble::parse::parse_ast;
use logos_shim::lex_all;
use serde_json::{json, Value};

mod logos_shim {
    use lc3_ensemble::parse::lex::{LexErr, Token};
    /// Lexes the whole input through the public `Parser`-independent token API.
    pub fn lex_all(s: &str) -> Vec<Result<Token, LexErr>> {
        // `Token::lexer` comes from the `Logos` derive; the trait is re-exported by the crate's dependency.
        use logos::Logos;
        Token::lexer(s).collect()
    }
}

/// All notations of magnitude `m` with sign `neg`.
fn notations(m: u64, neg: bool, zeros: usize, mix: u32) -> Vec<String> {
    let z = "0".repeat(zeros);
    let hex_u = format!("{m:X}");
    let hex_l = format!("{m:x}");
    let hex_m: String = hex_u.chars().enumerate().map(|(i, c)| if (mix >> (i % 16)) & 1 == 1 { c.to_ascii_lowercase() } else { c }).collect();
    if neg {
        vec![format!("-{z}{m}"), format!("#-{z}{m}"), format!("x-{z}{hex_u}"), format!("X-{z}{hex_l}"), format!("x-{z}{hex_m}")]
    } else {
        vec![format!("{z}{m}"), format!("#{z}{m}"), format!("x{z}{hex_u}"), format!("X{z}{hex_l}"), format!("X{z}{hex_m}")]
    }
}

/// (a) the literal alone
fn check_token(lit: &str, v: i64, neg: bool) -> Result<(), String> {
    let toks = no_panic("lexer", || lex_all(lit))?;
    if toks.len() != 1 {
        return Err(format!("literal {lit:?} lexes to {} tokens: {toks:?}", toks.len()));
    }
    let accept = if neg { v >= -32768 } else { v <= 65535 };
    match (&toks[0], accept) {
        (Ok(Token::Unsigned(u)), true) if !neg && *u as i64 == v => Ok(()),
        (Ok(Token::Signed(s)), true) if neg && *s as i64 == v => Ok(()),
        (Err(_), false) => Ok(()),
        (t, _) => Err(format!("literal {lit:?} (value {v}, {} form) lexes to {t:?}; expected {}", if neg { "signed" } else { "unsigned" }, if accept { "that value" } else { "a rejection" })),
    }
}

#[derive(Clone, Copy, Debug)]
pub enum Field {
    Signed(u32),
    Trap,
    Orig,
    Blkw,
    Fill,
}
/// statement templates: (text before the literal, field)
pub const TEMPLATES: &[(&str, Field)] = &[
    ("ADD R1, R2, ", Field::Signed(5)),
    ("and r0, r7, ", Field::Signed(5)),
    ("LDR R3, R4, ", Field::Signed(6)),
    ("STR R5, R6, ", Field::Signed(6)),
    ("LD R1, ", Field::Signed(9)),
    ("ST R1, ", Field::Signed(9)),
    ("LDI R1, ", Field::Signed(9)),
    ("STI R1, ", Field::Signed(9)),
    ("LEA R1, ", Field::Signed(9)),
    ("BRnz ", Field::Signed(9)),
    ("NOP ", Field::Signed(9)),
    ("JSR ", Field::Signed(11)),
    ("TRAP ", Field::Trap),
    (".orig ", Field::Orig),
    (".blkw ", Field::Blkw),
    (".fill ", Field::Fill),
];

fn field_accepts(f: Field, v: i64, neg: bool) -> Option<i64> {
    // token must be accepted first
    if (neg && v < -32768) || (!neg && v > 65535) {
        return None;
    }
    match f {
        Field::Signed(n) => (v >= -(1i64 << (n - 1)) && v < (1i64 << (n - 1))).then_some(v),
        Field::Trap => (0..=255).contains(&v).then_some(v),
        Field::Orig => (0..=65535).contains(&v).then_some(v),
        Field::Blkw => (1..=65535).contains(&v).then_some(v),
        Field::Fill => Some(v.rem_euclid(65536)),
    }
}

fn operand_value(k: &MKind) -> Option<i64> {
    Some(match k {
        MKind::Add(_, _, Src2::Imm(v)) | MKind::And(_, _, Src2::Imm(v)) | MKind::Ldr(_, _, v) | MKind::Str(_, _, v) | MKind::Trap(v) | MKind::Orig(v) | MKind::Blkw(v) => *v as i64,
        MKind::Ld(_, Opnd::Num(v)) | MKind::St(_, Opnd::Num(v)) | MKind::Ldi(_, Opnd::Num(v)) | MKind::Sti(_, Opnd::Num(v)) | MKind::Lea(_, Opnd::Num(v)) | MKind::Br(_, Opnd::Num(v)) | MKind::Jsr(Opnd::Num(v)) | MKind::Nop(Some(Opnd::Num(v))) | MKind::Fill(Opnd::Num(v)) => *v as i64,
        _ => return None,
    })
}

/// (b) the literal as the operand of a field
fn check_field(tpl: usize, lit: &str, v: i64, neg: bool) -> Result<(), String> {
    let (pre, f) = TEMPLATES[tpl];
    let src = format!("{pre}{lit}");
    let r = no_panic("parse_ast", || parse_ast(&src))?;
    let want = field_accepts(f, v, neg);
    match (r, want) {
        (Ok(ast), Some(w)) => {
            if ast.len() != 1 {
                return Err(format!("{src:?} parsed to {} statements", ast.len()));
            }
            let got = operand_value(&from_real(&ast[0]).kind);
            if got != Some(w) {
                return Err(format!("{src:?}: operand parsed as {got:?}, the literal denotes {w}"));
            }
            Ok(())
        }
        (Err(_), None) => Ok(()),
        (Ok(ast), None) => Err(format!("{src:?} was accepted ({:?}) although {v} does not fit {f:?}", from_real(&ast[0]).kind)),
        (Err(e), Some(w)) => Err(format!("{src:?} was rejected ({e:?}) although {w} fits {f:?}")),
    }
}

fn check_reg(text: &str, number: Option<u64>) -> Result<(), String> {
    let toks = no_panic("lexer", || lex_all(text))?;
    if toks.len() != 1 {
        return Err(format!("register text {text:?} lexes to {} tokens", toks.len()));
    }
    let accept = number.is_some_and(|n| n <= 7);
    match (&toks[0], accept) {
        (Ok(Token::Reg(r)), true) if Some(*r as u64) == number => {}
        (Err(_), false) => {}
        (t, _) => return Err(format!("register text {text:?} lexes to {t:?}; expected {}", if accept { "the register" } else { "a rejection" })),
    }
    // as an operand
    let src = format!("NOT {text}, R0");
    let r = no_panic("parse_ast", || parse_ast(&src))?;
    match (r, accept) {
        (Ok(ast), true) => match from_real(&ast[0]).kind {
            MKind::Not(d, 0) if Some(d as u64) == number => Ok(()),
            k => Err(format!("{src:?} parsed to {k:?}")),
        },
        (Err(_), false) => Ok(()),
        (Ok(_), false) => Err(format!("{src:?} was accepted")),
        (Err(e), true) => Err(format!("{src:?} was rejected: {e:?}")),
    }
}

/// One work item = one (magnitude, sign) pair: every notation, alone and in every field.
fn check_value(m: u64, neg: bool, zeros: usize, mix: u32, all_templates: bool, st: &mut Stats) -> Result<(), String> {
    let v = if neg { -(m as i64) } else { m as i64 };
    // non-trivial: within 2 of an accept/reject boundary of some construct
    const BOUNDS: &[i64] = &[-32768, -1025, -1024, -257, -256, -33, -32, -17, -16, -1, 0, 1, 15, 16, 31, 32, 255, 256, 1023, 1024, 32767, 32768, 65535, 65536];
    let near = BOUNDS.iter().any(|b| (v - b).abs() <= 2);
    if near {
        st.nontrivial(&(v, neg));
        st.class("near-boundary");
    }
    for lit in notations(m, neg, zeros, mix) {
        st.evaluations += 1;
        check_token(&lit, v, neg)?;
        let tpls: Vec<usize> = if all_templates || near { (0..TEMPLATES.len()).collect() } else { vec![0, 2, 4, 11, 12, 13, 14, 15] };
        for t in tpls {
            st.evaluations += 1;
            check_field(t, &lit, v, neg)?;
        }
        if near && st.want_sample() && m % 5 == 0 {
            st.sample(json!({"literal": lit, "value": v}));
        }
    }
    Ok(())
}

fn quick_domain() -> Vec<(u64, bool)> {
    let mut v: Vec<(u64, bool)> = vec![];
    let mut centers: Vec<i64> = (0..=17).map(|k| 1i64 << k).collect();
    centers.extend([0, 65535, 65536, 32767, 32768, 70000, 140000, 100000]);
    for c in centers {
        for d in -300..=300i64 {
            let x = c + d;
            if (0..=140000).contains(&x) {
                v.push((x as u64, false));
            }
            if (0..=70000).contains(&x) {
                v.push((x as u64, true));
            }
        }
    }
    v.sort();
    v.dedup();
    v
}

pub fn run(ctx: &Ctx) -> Outcome {
    let mut out = Outcome::new(
        "integers in [-70000,140000] (thorough: all; quick: all within 300 of every power of two, 32767/32768/65535/65536/70000/100000/140000, plus a seeded stride sample) in every notation \
         (n, #n, xH, XH mixed-case, -n, #-n, x-H, X-H, 0-4 leading zeros) lexed alone and as the operand of 16 statement templates covering imm5, offset6, PCoffset9, PCoffset11, trapvect8, .orig, .blkw, .fill; \
         random 20-40 digit literals; registers R/r 0..300 with leading zeros and 30-digit strings; oracle: interval arithmetic on the written value; an evaluation is one (literal, context) pair; \
         non-trivial = value within 2 of an accept/reject boundary of some construct; distinct by (value, sign form)",
    );
    let thorough = ctx.tier == Tier::Thorough;
    let mut domain: Vec<(u64, bool)> = if thorough {
        let mut d: Vec<(u64, bool)> = (0..=140000u64).map(|m| (m, false)).collect();
        d.extend((0..=70000u64).map(|m| (m, true)));
        d
    } else {
        let mut d = quick_domain();
        // seeded stride sample of the rest
        let stride = 37;
        let off = derive_seed(ctx.seed, "C05-stride", 0) % stride;
        d.extend((0..=140000u64).filter(|m| m % stride == off).map(|m| (m, false)));
        d.extend((0..=70000u64).filter(|m| m % stride == off).map(|m| (m, true)));
        d.sort();
        d.dedup();
        d
    };
    domain.sort();
    out.exhaustive = thorough;
    out.shards = 16;
    out.extra.insert("integer_values".into(), json!(domain.len()));
    let seed = ctx.seed;
    let dom = &domain;
    let r = par_enumerate(dom.len() as u64, 16, |i, st| {
        st.evaluations -= 1;
        let (m, neg) = dom[i as usize];
        let h = derive_seed(seed, "C05-surface", i);
        let zeros = [0, 0, 0, 1, 2, 4][(h % 6) as usize];
        check_value(m, neg, zeros, (h >> 8) as u32, thorough && m % 16 == 0, st).map_err(|msg| Failure {
            case: json!({"magnitude": m, "negative": neg, "zeros": zeros, "mix": (h >> 8) as u32}),
            message: msg,
            description: json!(format!("value {}{m}", if neg { "-" } else { "" })),
        })
    });
    out.absorb(r);
    // registers
    if !out.failed() {
        let r = par_enumerate(301, 4, |n, st| {
            st.class("register");
            if (6..=9).contains(&n) {
                st.nontrivial(&("reg", n));
            }
            for z in ["", "0", "000"] {
                for p in ["R", "r"] {
                    let text = format!("{p}{z}{n}");
                    check_reg(&text, Some(n)).map_err(|m| Failure { case: json!({"register_text": text}), message: m, description: json!(text) })?;
                }
            }
            Ok(())
        });
        out.absorb(r);
    }
    // huge values and long register numbers (tape driven)
    if !out.failed() {
        let cfg = TapeCfg::new(ctx, 1000, 20_000, 64);
        out.absorb(tape_search(ctx, "huge", &cfg, check_huge, |t| json!({"literal": decode_huge(t).0})));
    }
    out.essential = vec!["near-boundary".into(), "register".into(), "huge".into()];
    out
}

fn decode_huge(tape: &[u32]) -> (String, Option<(i64, bool)>, bool) {
    let mut t = Tape::new(tape);
    let digits = 20 + t.pick(21);
    let mut body = String::new();
    body.push((b'1' + t.pick(9) as u8) as char);
    for _ in 1..digits {
        body.push((b'0' + t.pick(10) as u8) as char);
    }
    match t.pick(6) {
        0 => (body, None, false),
        1 => (format!("#{body}"), None, false),
        2 => (format!("-{body}"), None, false),
        3 => (format!("#-{body}"), None, false),
        4 => (format!("x{body}"), None, false),
        _ => {
            // 30-digit register numbers, possibly with leading zeros hiding a small value
            let small = t.pick(12) as i64;
            if t.chance(1, 2) {
                (format!("R{}{small}", "0".repeat(29)), Some((small, false)), true)
            } else {
                (format!("r{body}"), None, true)
            }
        }
    }
}

fn check_huge(tape: &[u32], st: &mut Stats) -> Result<(), String> {
    let (lit, small, is_reg) = decode_huge(tape);
    st.class("huge");
    st.nontrivial(&lit);
    if is_reg {
        return check_reg(&lit, small.map(|(v, _)| v as u64).or(Some(u64::MAX)));
    }
    let toks = no_panic("lexer", || lex_all(&lit))?;
    if toks.len() != 1 || toks[0].is_ok() {
        return Err(format!("huge literal {lit:?} lexes to {toks:?}; expected one rejected token"));
    }
    for (pre, _) in TEMPLATES {
        let src = format!("{pre}{lit}");
        if no_panic("parse_ast", || parse_ast(&src))?.is_ok() {
            return Err(format!("{src:?} was accepted"));
        }
    }
    Ok(())
}

pub fn replay(_ctx: &Ctx, case: &Value, st: &mut Stats) -> Result<(), String> {
    if let Some(m) = case["magnitude"].as_u64() {
        return check_value(m, case["negative"].as_bool().unwrap_or(false), case["zeros"].as_u64().unwrap_or(0) as usize, case["mix"].as_u64().unwrap_or(0) as u32, true, st);
    }
    if let Some(t) = case["register_text"].as_str() {
        let digits: String = t.chars().skip(1).collect();
        return check_reg(t, digits.parse::<u64>().ok().or(Some(u64::MAX)));
    }
    let tape: Vec<u32> = serde_json::from_value(case["tape"].clone()).map_err(|e| e.to_string())?;
    check_huge(&tape, st)
}
