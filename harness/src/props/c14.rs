//! C14 — Strict mode only adds uninitialized-value errors (twin run, strict on/off).
use crate::driver::*;
use crate::model::cpu::IO_START;
use crate::props::simrig::*;
use crate::tape::Tape;
use lc3_ensemble::sim::SimErr;
use serde_json::{json, Value};

fn is_strict_err(e: &SimErr) -> bool {
    matches!(
        e,
        SimErr::StrictRegSetUninit
            | SimErr::StrictMemSetUninit
            | SimErr::StrictIOSetUninit
            | SimErr::StrictJmpAddrUninit
            | SimErr::StrictSRAddrUninit
            | SimErr::StrictMemAddrUninit
            | SimErr::StrictPCCurrUninit
            | SimErr::StrictPCNextUninit
            | SimErr::StrictPSRSetUninit
    )
}
fn kind(r: &Result<(), SimErr>) -> String {
    match r {
        Ok(()) => "Ok".into(),
        Err(e) => format!("{e:?}"),
    }
}

fn state_diff(a: &mut Rig, b: &mut Rig) -> Option<String> {
    for i in 0..8 {
        // value and initialization mask (through the hook): the initialization state is what strict mode looks at, so a
        // step it accepts must leave the same state behind as without it
        let (x, y) = (a.sim.reg_file[reg(i)].verif_parts(), b.sim.reg_file[reg(i)].verif_parts());
        if x != y {
            return Some(format!("R{i}: strict x{:04X} (init mask x{:04X}), non-strict x{:04X} (init mask x{:04X})", x.0, x.1, y.0, y.1));
        }
    }
    if a.sim.pc != b.sim.pc {
        return Some(format!("PC: strict x{:04X}, non-strict x{:04X}", a.sim.pc, b.sim.pc));
    }
    if a.sim.psr().get() != b.sim.psr().get() {
        return Some(format!("PSR: strict x{:04X}, non-strict x{:04X}", a.sim.psr().get(), b.sim.psr().get()));
    }
    if a.sim.instructions_run != b.sim.instructions_run {
        return Some(format!("instructions_run: strict {}, non-strict {}", a.sim.instructions_run, b.sim.instructions_run));
    }
    if a.sim.frame_stack.len() != b.sim.frame_stack.len() {
        return Some("frame depth differs".into());
    }
    let om = lc3_ensemble::sim::MemAccessCtx::omnipotent();
    let (sa, sb) = (a.sim.read_mem(SSP_PORT, om).map(|w| w.get()).ok(), b.sim.read_mem(SSP_PORT, om).map(|w| w.get()).ok());
    if sa != sb {
        return Some(format!("saved SP: strict {sa:04X?}, non-strict {sb:04X?}"));
    }
    let (ka, kb): (Option<Vec<u8>>, Option<Vec<u8>>) = (a.kbd.as_ref().map(|k| k.read().unwrap().iter().copied().collect()), b.kbd.as_ref().map(|k| k.read().unwrap().iter().copied().collect()));
    if ka != kb {
        return Some(format!("keyboard queue: strict {ka:?}, non-strict {kb:?}"));
    }
    let (da, db) = (a.display.as_ref().map(|d| d.read().unwrap().clone()), b.display.as_ref().map(|d| d.read().unwrap().clone()));
    if da != db {
        return Some(format!("display: strict {da:?}, non-strict {db:?}"));
    }
    for addr in 0..=u16::MAX {
        let (x, y) = (a.sim.mem[addr].verif_parts(), b.sim.mem[addr].verif_parts());
        if x != y {
            return Some(format!("mem[x{addr:04X}]: strict x{:04X} (init mask x{:04X}), non-strict x{:04X} (init mask x{:04X})", x.0, x.1, y.0, y.1));
        }
    }
    None
}

pub fn check_case(c: &StateCase, fully_init: bool, st: &mut Stats) -> Result<(), String> {
    let mut s_spec = c.spec.clone();
    s_spec.strict = true;
    let mut n_spec = c.spec.clone();
    n_spec.strict = false;
    let mut a = build_rig(&s_spec);
    let mut b = build_rig(&n_spec);
    if fully_init {
        for rig in [&mut a, &mut b] {
            for addr in 0..=u16::MAX {
                let v = rig.sim.mem[addr].get();
                rig.sim.mem[addr].set(v);
            }
            for i in 0..8 {
                let v = rig.sim.reg_file[reg(i)].get();
                rig.sim.reg_file[reg(i)].set(v);
            }
        }
        st.class("fully-initialised-machine");
    }
    let mut steps_done = 0;
    let mut outside = false;
    for i in 0..c.steps {
        a.plan.lock().unwrap().push_back(c.plan[i]);
        b.plan.lock().unwrap().push_back(c.plan[i]);
        let pc = b.sim.pc;
        let ra = a.sim.step_in();
        let rb = b.sim.step_in();
        a.plan.lock().unwrap().clear();
        b.plan.lock().unwrap().clear();
        if let Err(e) = &ra {
            if is_strict_err(e) {
                st.class("strict-rejected-step");
                if fully_init {
                    return Err(format!("step {i} at x{pc:04X}: strict mode reported {e:?} on a machine whose memory and registers are all initialised"));
                }
                break;
            }
        }
        if kind(&ra) != kind(&rb) {
            return Err(format!(
                "step {i} at x{pc:04X} (word x{:04X}): strict mode returned {}, non-strict {}; a step that fails only under strict mode must fail with a strict (uninitialized-value) error",
                b.sim.mem[pc].get(),
                kind(&ra),
                kind(&rb)
            ));
        }
        if let Some(d) = state_diff(&mut a, &mut b) {
            return Err(format!("step {i} at x{pc:04X} (word x{:04X}) was not rejected by strict mode but evolved differently: {d}", b.sim.mem[pc].get()));
        }
        steps_done += 1;
        if !(0x3000..IO_START).contains(&b.sim.pc) {
            outside = true;
        }
        if ra.is_err() {
            break;
        }
    }
    if steps_done > 0 {
        st.class("compared-steps");
    }
    if outside {
        st.class("pc-left-user-space");
    }
    Ok(())
}

pub fn decode(tape: &[u32]) -> (StateCase, bool) {
    let mut t = Tape::new(tape);
    let c = gen_state(&mut t, true);
    let fully = t.chance(1, 4);
    (c, fully)
}

pub fn check(tape: &[u32], st: &mut Stats) -> Result<(), String> {
    let (c, fully) = decode(tape);
    let mut local = Stats::default();
    check_case(&c, fully, &mut local)?;
    let nt = local.classes.contains_key("strict-rejected-step") || local.classes.contains_key("pc-left-user-space");
    for (k, v) in local.classes {
        st.class_n(&k, v);
    }
    if nt {
        st.nontrivial(tape);
        if st.want_sample() {
            st.sample(describe_state(&c));
        }
    }
    Ok(())
}

pub fn describe(tape: &[u32]) -> Value {
    let (c, fully) = decode(tape);
    let mut d = describe_state(&c);
    d["fully_initialised"] = json!(fully);
    d["state_json"] = case_to_json(&c);
    d
}

pub fn run(ctx: &Ctx) -> Outcome {
    let mut out = Outcome::new(
        "twin simulators built from one generated state (Seeded/Known init, some registers left uninitialised, optional loaded .blkw block, jumps into OS memory and the I/O page, keyboard non-empty, interrupts), one strict one not, stepped together: \
         if the strict twin reports a Strict* error the case ends; otherwise result kinds and complete states (R0-R7, PC, PSR, saved SP, counters, keyboard, display, all 65536 words) must be equal after every step; \
         1/4 of the cases run on a machine whose every word and register was explicitly initialised, where a Strict* error is a violation; non-trivial = strict rejected a step or the PC left user space; distinct by tape",
    );
    let cfg = TapeCfg::new(ctx, 3000, 150_000, 400);
    out.shards = cfg.shards;
    out.absorb(tape_search(ctx, "main", &cfg, check, describe));
    out.assumptions.push("the exemptions of strict mode (stack-relative accesses, reserved words of the loaded object file) are not part of the property and are not checked; only that strict-only failures are strict errors and accepted steps are unchanged".into());
    out.essential = ["strict-rejected-step", "compared-steps", "pc-left-user-space", "fully-initialised-machine"].iter().map(|s| s.to_string()).collect();
    out
}

pub fn replay(_ctx: &Ctx, case: &Value, st: &mut Stats) -> Result<(), String> {
    if case.get("state").is_some() {
        return check_case(&case_from_json(&case["state"])?, case["fully_initialised"].as_bool().unwrap_or(false), st);
    }
    let tape: Vec<u32> = serde_json::from_value(case["tape"].clone()).map_err(|e| e.to_string())?;
    check(&tape, st)
}
