//! C32 — Memory-mapped I/O reaches exactly the mapped register or device (port-table model).
use crate::driver::*;
use crate::props::recdev::*;
use crate::tape::Tape;
use lc3_ensemble::sim::mem::{MachineInitStrategy, Word};
use lc3_ensemble::sim::{InternalRegister, MMapInternalErr, MemAccessCtx, SimFlags, Simulator};
use serde_json::{json, Value};
use std::collections::BTreeMap;
use std::sync::{Arc, Mutex};

#[derive(Clone, Debug)]
pub enum Op {
    Add(Vec<u16>, bool),
    Remove(u16),
    SetKeyboard(bool),
    SetDisplay(bool),
    Mmap(u16, u8),
    Munmap(u16),
    Read(u16, bool),
    Write(u16, u16),
}

const PORTS: &[u16] = &[0xFE10, 0xFE11, 0xFE00, 0xFE02, 0xFE04, 0xFE06, 0xFFFC, 0xFFFE, 0xFFFF, 0xFDFF, 0x3000, 0xFE20];

fn gen_op(t: &mut Tape, small: bool) -> Op {
    let alpha: &[u16] = if small { &[0xFE10, 0xFE11, 0xFE00, 0xFDFF] } else { PORTS };
    let port = |t: &mut Tape| alpha[t.pick(alpha.len())];
    match t.weighted(&[4, 3, 1, 1, 2, 1, 5, 5]) {
        0 => {
            let n = t.weighted(&[1, 6, 3, 1]);
            Op::Add((0..n).map(|_| port(t)).collect(), !t.chance(1, 5))
        }
        1 => Op::Remove(t.pick(7) as u16),
        2 => Op::SetKeyboard(!t.chance(1, 5)),
        3 => Op::SetDisplay(!t.chance(1, 5)),
        4 => Op::Mmap(port(t), t.pick(4) as u8),
        5 => Op::Munmap(port(t)),
        6 => Op::Read(port(t), t.chance(3, 4)),
        _ => Op::Write(port(t), t.u16()),
    }
}

pub fn decode(tape: &[u32]) -> Vec<Op> {
    let mut t = Tape::new(tape);
    let small = t.chance(1, 3);
    let n = if small { 1 + t.pick(5) } else { 1 + t.pick(25) };
    (0..n).map(|_| gen_op(&mut t, small)).collect()
}

struct Model {
    /// port -> owning device id (0 = none)
    ports: BTreeMap<u16, u16>,
    /// device id -> Some(accepts writes) when a recording device is present
    devices: Vec<Option<(u16, bool)>>,
    iregs: BTreeMap<u16, u8>,
    mirror: BTreeMap<u16, u16>,
    pc: u16,
    psr: u16,
    mcr: bool,
    saved_sp: u16,
    log: Vec<(u16, Ev)>,
    next_tag: u16,
}

fn ireg(k: u8) -> InternalRegister {
    match k {
        0 => InternalRegister::PC,
        1 => InternalRegister::PSR,
        2 => InternalRegister::MCR,
        _ => InternalRegister::SavedSP,
    }
}

pub fn check_ops(ops: &[Op], st: &mut Stats) -> Result<(), String> {
    let mut sim = Simulator::new(SimFlags { machine_init: MachineInitStrategy::Known { value: 0 }, ..Default::default() });
    let log: Log = Arc::new(Mutex::new(vec![]));
    let mut m = Model {
        ports: BTreeMap::from([(0xFE00, 1), (0xFE02, 1), (0xFE04, 2), (0xFE06, 2)]),
        devices: vec![None, None, None],
        iregs: BTreeMap::from([(0xFFFC, 1), (0xFFFE, 2)]),
        mirror: BTreeMap::new(),
        pc: 0x3000,
        psr: 0x8002,
        mcr: false,
        saved_sp: 0x3000,
        log: vec![],
        next_tag: 100,
    };
    let ctx = |fx: bool| MemAccessCtx { privileged: true, strict: false, io_effects: fx, track_access: false };
    let mut readd = false;
    let mut shadow = false;
    let mut freed: Vec<u16> = vec![];
    for (i, op) in ops.iter().enumerate() {
        let what = format!("op {i} {op:?}");
        match op {
            Op::Add(ports, accept) => {
                let tag = m.next_tag;
                m.next_tag += 1;
                let ok = ports.iter().all(|p| *p >= 0xFE00 && m.ports.get(p).copied().unwrap_or(0) == 0);
                let r = sim.device_handler.add_device(RecDev { tag, log: Arc::clone(&log), accept: *accept }, ports);
                match (r, ok) {
                    (Ok(id), true) => {
                        let want = m.devices.len() as u16;
                        if id != want {
                            return Err(format!("{what}: new device got id {id}, expected the never-used id {want}"));
                        }
                        m.devices.push(Some((tag, *accept)));
                        for p in ports {
                            if m.ports.get(p).copied().unwrap_or(0) == 0 {
                                m.ports.insert(*p, id);
                                if freed.contains(p) {
                                    readd = true;
                                }
                            }
                        }
                        st.class("add-ok");
                    }
                    (Err(_), false) => st.class("add-rejected"),
                    (Ok(id), false) => return Err(format!("{what}: succeeded (id {id}) although a port is not an I/O address or already owned (owners: {:?})", ports.iter().map(|p| m.ports.get(p)).collect::<Vec<_>>())),
                    (Err(_), true) => return Err(format!("{what}: rejected although every port is a free I/O address")),
                }
            }
            Op::Remove(id) => {
                sim.device_handler.remove_device(*id);
                if (*id as usize) < m.devices.len() {
                    m.devices[*id as usize] = None;
                    if *id > 2 {
                        for (p, o) in m.ports.iter_mut() {
                            if *o == *id {
                                *o = 0;
                                freed.push(*p);
                            }
                        }
                    }
                    st.class("remove");
                }
            }
            Op::SetKeyboard(acc) | Op::SetDisplay(acc) => {
                let tag = m.next_tag;
                m.next_tag += 1;
                let d = RecDev { tag, log: Arc::clone(&log), accept: *acc };
                if matches!(op, Op::SetKeyboard(_)) {
                    sim.device_handler.set_keyboard(d);
                    m.devices[1] = Some((tag, *acc));
                } else {
                    sim.device_handler.set_display(d);
                    m.devices[2] = Some((tag, *acc));
                }
                st.class("set-kbd-or-display");
            }
            Op::Mmap(addr, k) => {
                let r = sim.mmap_internal(*addr, ireg(*k));
                let want: Result<(), &str> = if *addr < 0xFE00 { Err("range") } else if m.iregs.contains_key(addr) { Err("mapped") } else { Ok(()) };
                match (&r, want) {
                    (Ok(()), Ok(())) => {
                        m.iregs.insert(*addr, *k);
                        if m.ports.get(addr).copied().unwrap_or(0) != 0 {
                            shadow = true;
                        }
                    }
                    (Err(MMapInternalErr::NotInIORange), Err("range")) | (Err(MMapInternalErr::AddrAlreadyMapped), Err("mapped")) => {}
                    (a, b) => return Err(format!("{what}: returned {a:?}, expected {b:?}")),
                }
            }
            Op::Munmap(addr) => {
                let r = sim.munmap_internal(*addr);
                let want = m.iregs.remove(addr).is_some();
                if r != want {
                    return Err(format!("{what}: returned {r}, expected {want}"));
                }
            }
            Op::Read(addr, fx) => {
                let got = sim.read_mem(*addr, ctx(*fx)).map_err(|e| format!("{what}: {e:?}"))?.get();
                let want = if *addr < 0xFE00 {
                    m.mirror.get(addr).copied().unwrap_or(sim.mem[*addr].get())
                } else if let Some(k) = m.iregs.get(addr) {
                    let v = match k {
                        0 => m.pc,
                        1 => m.psr,
                        2 => (m.mcr as u16) << 15,
                        _ => m.saved_sp,
                    };
                    m.mirror.insert(*addr, v);
                    st.class("read-internal-register");
                    v
                } else {
                    let owner = m.ports.get(addr).copied().unwrap_or(0);
                    match m.devices.get(owner as usize).copied().flatten() {
                        Some((tag, _)) if owner != 0 => {
                            m.log.push((tag, Ev::Read(*addr, *fx)));
                            let v = RecDev::value(tag, *addr);
                            m.mirror.insert(*addr, v);
                            st.class("read-device");
                            v
                        }
                        _ => {
                            st.class("read-nothing");
                            m.mirror.get(addr).copied().unwrap_or(0)
                        }
                    }
                };
                if got != want {
                    return Err(format!("{what}: read x{got:04X}, the port table says x{want:04X}"));
                }
            }
            Op::Write(addr, data) => {
                sim.write_mem(*addr, Word::new_init(*data), ctx(true)).map_err(|e| format!("{what}: {e:?}"))?;
                if *addr < 0xFE00 {
                    m.mirror.insert(*addr, *data);
                } else if let Some(k) = m.iregs.get(addr) {
                    match k {
                        0 => m.pc = *data,
                        1 => {
                            let mut v = *data & 0x8707;
                            if (v & 7).count_ones() != 1 {
                                v = (v & !7) | 2;
                            }
                            m.psr = v;
                        }
                        2 => m.mcr = *data & 0x8000 != 0,
                        _ => m.saved_sp = *data,
                    }
                    m.mirror.insert(*addr, *data);
                    st.class("write-internal-register");
                } else {
                    let owner = m.ports.get(addr).copied().unwrap_or(0);
                    match m.devices.get(owner as usize).copied().flatten() {
                        Some((tag, accept)) if owner != 0 => {
                            m.log.push((tag, Ev::Write(*addr, *data)));
                            if accept {
                                m.mirror.insert(*addr, *data);
                            }
                            st.class("write-device");
                        }
                        _ => st.class("write-nothing"),
                    }
                }
                let mem = sim.mem[*addr].get();
                let want = m.mirror.get(addr).copied().unwrap_or(0);
                if mem != want {
                    return Err(format!("{what}: memory word x{:04X} is x{mem:04X} afterwards, expected x{want:04X} (writes that nobody accepts leave memory unchanged)", addr));
                }
                if sim.pc != m.pc || sim.psr().get() != m.psr {
                    return Err(format!("{what}: PC/PSR = x{:04X}/x{:04X}, expected x{:04X}/x{:04X}", sim.pc, sim.psr().get(), m.pc, m.psr));
                }
            }
        }
        let real_log = log.lock().unwrap().clone();
        if real_log != m.log {
            return Err(format!("{what}: device calls so far {:?}, the port table predicts {:?}", &real_log[real_log.len().saturating_sub(3)..], &m.log[m.log.len().saturating_sub(3)..]));
        }
    }
    if readd {
        st.class("re-add-on-freed-port");
    }
    if shadow {
        st.class("internal-register-shadows-device");
    }
    if readd || shadow {
        st.nontrivial(&format!("{ops:?}"));
        if st.want_sample() {
            st.sample(json!(ops.iter().map(|o| format!("{o:?}")).collect::<Vec<_>>()));
        }
    }
    Ok(())
}

pub fn check(tape: &[u32], st: &mut Stats) -> Result<(), String> {
    check_ops(&decode(tape), st)
}

pub fn ops_to_json(ops: &[Op]) -> Value {
    json!(ops
        .iter()
        .map(|o| match o {
            Op::Add(p, a) => json!(["add", p, a]),
            Op::Remove(i) => json!(["remove", i]),
            Op::SetKeyboard(a) => json!(["set_keyboard", a]),
            Op::SetDisplay(a) => json!(["set_display", a]),
            Op::Mmap(a, k) => json!(["mmap", a, k]),
            Op::Munmap(a) => json!(["munmap", a]),
            Op::Read(a, fx) => json!(["read", a, fx]),
            Op::Write(a, d) => json!(["write", a, d]),
        })
        .collect::<Vec<_>>())
}
pub fn ops_from_json(v: &Value) -> Result<Vec<Op>, String> {
    let mut out = vec![];
    for o in v.as_array().ok_or("ops must be an array")? {
        let n = |i: usize| o[i].as_u64().unwrap_or(0);
        out.push(match o[0].as_str().unwrap_or("") {
            "add" => Op::Add(serde_json::from_value(o[1].clone()).map_err(|e| e.to_string())?, o[2].as_bool().unwrap_or(true)),
            "remove" => Op::Remove(n(1) as u16),
            "set_keyboard" => Op::SetKeyboard(o[1].as_bool().unwrap_or(true)),
            "set_display" => Op::SetDisplay(o[1].as_bool().unwrap_or(true)),
            "mmap" => Op::Mmap(n(1) as u16, n(2) as u8),
            "munmap" => Op::Munmap(n(1) as u16),
            "read" => Op::Read(n(1) as u16, o[2].as_bool().unwrap_or(true)),
            "write" => Op::Write(n(1) as u16, n(2) as u16),
            x => return Err(format!("unknown op {x}")),
        });
    }
    Ok(out)
}

pub fn describe(tape: &[u32]) -> Value {
    json!(decode(tape).iter().map(|o| format!("{o:?}")).collect::<Vec<_>>())
}

/// Bounded-exhaustive part: all sequences of length <= 4 over a small op alphabet.
fn small_alphabet() -> Vec<Op> {
    vec![
        Op::Add(vec![0xFE10], true),
        Op::Add(vec![0xFE10, 0xFE11], true),
        Op::Add(vec![0xFE00], true),
        Op::Add(vec![0xFDFF], true),
        Op::Add(vec![], true),
        Op::Remove(3),
        Op::Remove(1),
        Op::Remove(4),
        Op::SetKeyboard(true),
        Op::Mmap(0xFE10, 0),
        Op::Munmap(0xFE10),
        Op::Read(0xFE10, true),
        Op::Read(0xFE00, true),
        Op::Write(0xFE10, 0x1234),
        Op::Write(0xFE11, 0x4321),
    ]
}

pub fn run(ctx: &Ctx) -> Outcome {
    let mut out = Outcome::new(
        "operation sequences over add_device (ports in range/owned/KBSR/below xFE00/duplicates/empty, accepting or refusing writes), remove_device (ids 0-6), set_keyboard/set_display, mmap_internal/munmap_internal, read/write with a privileged context, all devices being recording devices; \
         bounded-exhaustive: every sequence of length <= 4 (quick: <= 3) over a 15-op alphabet, random sequences up to 25 ops over 12 ports; port-table model: internal register > owning live device > nothing, add succeeds iff all ports are unowned I/O addresses, ids increase and are never reused, remove frees ports except keyboard/display, \
         unaccepted writes leave memory unchanged; device call logs must equal the model's; non-trivial = a port is re-added after its owner was removed, or an internal register shadows a device; distinct by sequence",
    );
    // exhaustive part
    let alpha = small_alphabet();
    let depth = ctx.tier.pick(3usize, 4);
    let total: u64 = (1..=depth as u32).map(|d| (alpha.len() as u64).pow(d)).sum();
    let a = &alpha;
    out.absorb(par_enumerate(total, 16, |mut idx, st| {
        let mut len = 1;
        let mut block = a.len() as u64;
        while idx >= block {
            idx -= block;
            len += 1;
            block *= a.len() as u64;
        }
        let mut ops = vec![];
        for _ in 0..len {
            ops.push(a[(idx % a.len() as u64) as usize].clone());
            idx /= a.len() as u64;
        }
        check_ops(&ops, st).map_err(|m| Failure { case: json!({"ops": ops_to_json(&ops)}), message: m, description: json!(ops.iter().map(|o| format!("{o:?}")).collect::<Vec<_>>()) })
    }));
    out.extra.insert("exhaustive_sequences".into(), json!(total));
    out.extra.insert("exhaustive_depth".into(), json!(depth));
    if !out.failed() {
        let cfg = TapeCfg::new(ctx, 4000, 150_000, 200);
        out.shards = cfg.shards;
        out.absorb(tape_search(ctx, "random", &cfg, check, describe));
    }
    out.essential = ["add-ok", "add-rejected", "remove", "set-kbd-or-display", "read-internal-register", "read-device", "read-nothing", "write-internal-register", "write-device", "write-nothing", "re-add-on-freed-port", "internal-register-shadows-device"].iter().map(|s| s.to_string()).collect();
    out
}

pub fn replay(_ctx: &Ctx, case: &Value, st: &mut Stats) -> Result<(), String> {
    if case.get("ops").is_some() {
        return check_ops(&ops_from_json(&case["ops"])?, st);
    }
    let tape: Vec<u32> = serde_json::from_value(case["tape"].clone()).map_err(|e| e.to_string())?;
    check(&tape, st)
}
