//! C15 — Initialization tracking of words is sound (uses the guarded hook Word::verif_parts / verif_from_parts).
use crate::driver::*;
use crate::tape::Tape;
use lc3_ensemble::sim::mem::Word;
use serde_json::{json, Value};

fn mask(t: &mut Tape) -> u16 {
    match t.pick(8) {
        0 => 0xFFFF,
        1 => 0x0000,
        2 => 1 << t.pick(16),
        3 => 0x00FF,
        4 => 0xFF00,
        5 => 0x5555,
        6 => !(1u16 << t.pick(16)),
        _ => t.u16(),
    }
}
fn data(t: &mut Tape) -> u16 {
    match t.pick(6) {
        0 => 0,
        1 => 0xFFFF,
        2 => 1,
        3 => 0x8000,
        _ => t.u16(),
    }
}

#[derive(Clone, Copy, Debug)]
pub enum OpK {
    Add,
    Sub,
    And,
    Not,
    AddAssignW,
    SubAssignW,
    AndAssignW,
    AddAssignU,
    AddAssignI,
    SubAssignU,
    SubAssignI,
}
const OPS: &[OpK] = &[OpK::Add, OpK::Sub, OpK::And, OpK::Not, OpK::AddAssignW, OpK::SubAssignW, OpK::AndAssignW, OpK::AddAssignU, OpK::AddAssignI, OpK::SubAssignU, OpK::SubAssignI];

fn apply(op: OpK, l: Word, r: Word) -> Word {
    let rv = r.get();
    match op {
        OpK::Add => l + r,
        OpK::Sub => l - r,
        OpK::And => l & r,
        OpK::Not => !l,
        OpK::AddAssignW => {
            let mut x = l;
            x += r;
            x
        }
        OpK::SubAssignW => {
            let mut x = l;
            x -= r;
            x
        }
        OpK::AndAssignW => {
            let mut x = l;
            x &= r;
            x
        }
        OpK::AddAssignU => {
            let mut x = l;
            x += rv;
            x
        }
        OpK::AddAssignI => {
            let mut x = l;
            x += rv as i16;
            x
        }
        OpK::SubAssignU => {
            let mut x = l;
            x -= rv;
            x
        }
        OpK::SubAssignI => {
            let mut x = l;
            x -= rv as i16;
            x
        }
    }
}
fn concrete(op: OpK, l: u16, r: u16) -> u16 {
    match op {
        OpK::Add | OpK::AddAssignW | OpK::AddAssignU | OpK::AddAssignI => l.wrapping_add(r),
        OpK::Sub | OpK::SubAssignW | OpK::SubAssignU | OpK::SubAssignI => l.wrapping_sub(r),
        OpK::And | OpK::AndAssignW => l & r,
        OpK::Not => !l,
    }
}

pub fn check_pair(op: OpK, ld: u16, li: u16, rd: u16, ri: u16, fills: &[(u16, u16)]) -> Result<(), String> {
    // the scalar assign forms take a fully initialised right operand
    let ri = if matches!(op, OpK::AddAssignU | OpK::AddAssignI | OpK::SubAssignU | OpK::SubAssignI) { 0xFFFF } else { ri };
    let l = Word::verif_from_parts(ld, li);
    let r = Word::verif_from_parts(rd, ri);
    let (od, oi) = apply(op, l, r).verif_parts();
    let unary = matches!(op, OpK::Not);
    if li == 0xFFFF && (ri == 0xFFFF || unary) {
        let want = concrete(op, ld, rd);
        if oi != 0xFFFF || od != want {
            return Err(format!("{op:?} on fully initialised words x{ld:04X}, x{rd:04X} gives x{od:04X} with init mask x{oi:04X}; expected x{want:04X} fully initialised"));
        }
    }
    // every bit reported initialised must be independent of the operands' uninitialised bits
    for (fl, fr) in fills {
        let lc = (ld & li) | (fl & !li);
        let rc = (rd & ri) | (fr & !ri);
        let c = concrete(op, lc, rc);
        let bad = (c ^ od) & oi;
        if bad != 0 {
            return Err(format!(
                "{op:?}: operands x{ld:04X}/init x{li:04X} and x{rd:04X}/init x{ri:04X} give x{od:04X} with init mask x{oi:04X}, but choosing the uninitialised bits as x{lc:04X}, x{rc:04X} gives x{c:04X}: bits x{bad:04X} are reported initialised yet depend on uninitialised input"
            ));
        }
    }
    Ok(())
}

pub fn check(tape: &[u32], st: &mut Stats) -> Result<(), String> {
    let mut t = Tape::new(tape);
    let (ld, li, rd, ri) = (data(&mut t), mask(&mut t), data(&mut t), mask(&mut t));
    let mut fills: Vec<(u16, u16)> = vec![(0, 0), (0xFFFF, 0xFFFF), (0, 0xFFFF), (0xFFFF, 0)];
    let mut x = t.raw() | 1;
    for _ in 0..64 {
        x = x.wrapping_mul(1664525).wrapping_add(1013904223);
        let a = (x >> 16) as u16;
        x = x.wrapping_mul(1664525).wrapping_add(1013904223);
        fills.push((a, (x >> 16) as u16));
    }
    st.evaluations += OPS.len() as u64 - 1;
    for op in OPS {
        check_pair(*op, ld, li, rd, ri, &fills)?;
    }
    let partial = |m: u16| m != 0xFFFF;
    if partial(li) || partial(ri) {
        st.nontrivial(&(ld, li, rd, ri));
        st.class(if li == 0 || ri == 0 { "empty-mask" } else { "partial-mask" });
        if st.want_sample() {
            st.sample(json!({"left": format!("x{ld:04X}/init x{li:04X}"), "right": format!("x{rd:04X}/init x{ri:04X}")}));
        }
    } else {
        st.class("fully-initialised");
    }
    Ok(())
}

pub fn describe(tape: &[u32]) -> Value {
    let mut t = Tape::new(tape);
    let (ld, li, rd, ri) = (data(&mut t), mask(&mut t), data(&mut t), mask(&mut t));
    json!({"left": format!("x{ld:04X}/init x{li:04X}"), "right": format!("x{rd:04X}/init x{ri:04X}")})
}

pub fn run(ctx: &Ctx) -> Outcome {
    let mut out = Outcome::new(
        "operand pairs (data, init mask) built through the guarded hook: masks full, empty, single bit, low/high byte, alternating, all-but-one, random; data 0, xFFFF, 1, x8000, random; for each pair all 11 operations (+ - & ! and the assign forms with Word, u16 and i16) are evaluated against 68 concretisations \
         of the uninitialised bits (all-zeros, all-ones, mixed, 64 pseudo-random): every result bit reported initialised must equal the concrete result bit in all of them; fully initialised operands must give the fully initialised wrapping 16-bit value; an evaluation is one (pair, operation); \
         non-trivial = at least one operand not fully initialised; distinct by operand pair",
    );
    let cfg = TapeCfg::new(ctx, 20_000, 2_000_000, 16);
    out.shards = cfg.shards;
    out.absorb(tape_search(ctx, "main", &cfg, check, describe));
    out.essential = vec!["partial-mask".into(), "empty-mask".into(), "fully-initialised".into()];
    out
}

pub fn replay(_ctx: &Ctx, case: &Value, st: &mut Stats) -> Result<(), String> {
    let tape: Vec<u32> = serde_json::from_value(case["tape"].clone()).map_err(|e| e.to_string())?;
    check(&tape, st)
}
