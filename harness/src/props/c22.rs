//! C22 — Linked debug info still points at the right source text.
use crate::driver::*;
use crate::gen::link::{build_obj, gen_link_set, LinkCfg, SrcFile};
use crate::props::c20::all_trees;
use crate::tape::Tape;
use lc3_ensemble::asm::ObjectFile;
use serde_json::{json, Value};

pub fn decode(tape: &[u32]) -> Vec<SrcFile> {
    use crate::model::stmt::{render, MKind, MStmt, RenderOpts};
    let mut t = Tape::new(tape);
    let mut files = gen_link_set(&mut t, &LinkCfg { max_files: 3, conflict_8: 0, overlaps: false, wild_render: true });
    // (read after the set, so that tapes stored before this was added decode to the same files)
    // a quarter of the sets contain a file without any statement that occupies memory (only an `.external`, only an
    // empty block, or both): it has text and possibly a label, but an empty line-to-address map
    if t.chance(1, 4) {
        let v = t.pick(3);
        let mut prog: Vec<MStmt> = vec![];
        if v != 0 {
            prog.push(MStmt { labels: vec![], kind: MKind::External("ZZNOADDR".into()) });
        }
        if v != 1 {
            prog.push(MStmt { labels: vec![], kind: MKind::Orig(0xE000) });
            prog.push(MStmt { labels: vec![], kind: MKind::End });
        }
        let model = crate::model::asm::asm_model(&prog);
        if model.ok() {
            let rendered = render(&prog, &mut t, RenderOpts { plain: false, wild_comments: true });
            files.truncate(2);
            let at = t.pick(files.len() + 1);
            files.insert(at, SrcFile { prog, rendered, model });
        }
    }
    files
}

fn link_tree(tr: &crate::props::c20::Tree, objs: &[ObjectFile]) -> Result<ObjectFile, String> {
    use crate::props::c20::Tree;
    match tr {
        Tree::Leaf(i) => Ok(objs[*i].clone()),
        Tree::Node(a, b) => {
            let x = link_tree(a, objs)?;
            let y = link_tree(b, objs)?;
            no_panic("link", || ObjectFile::link(x, y))?.map_err(|e| format!("link failed: {:?}", e.kind))
        }
    }
}

pub fn check_files(files: &[SrcFile], st: &mut Stats) -> Result<(), String> {
    if files.len() < 2 {
        st.class("fewer-than-2-files");
        return Ok(());
    }
    let objs: Vec<ObjectFile> = files.iter().map(|f| build_obj(f, true)).collect::<Result<_, _>>()?;
    st.class(&format!("files:{}", files.len()));
    if let Some(i) = files.iter().position(|f| f.model.stmt_addr.is_empty()) {
        st.class("file-without-addressed-statement");
        st.class(if i == 0 { "file-without-addressed-statement:first" } else { "file-without-addressed-statement:later" });
    }
    let second_has = files[1..].iter().any(|f| !f.model.labels.is_empty() && !f.model.stmt_addr.is_empty());
    if second_has {
        st.nontrivial(&files.iter().map(|f| f.rendered.text.clone()).collect::<Vec<_>>());
        if st.want_sample() {
            st.sample(json!({"files": files.iter().map(|f| f.rendered.text.clone()).collect::<Vec<_>>()}));
        }
    }
    let trees = all_trees(files.len());
    st.evaluations += trees.len() as u64 - 1;
    for tr in &trees {
        let linked = link_tree(tr, &objs).map_err(|e| format!("{tr:?}: {e}"))?;
        let sym = linked.symbol_table().ok_or("linked object has no symbol table")?;
        let src = sym.source_info().ok_or("linked object has no source info")?;
        for (fi, o) in objs.iter().enumerate() {
            let fsym = o.symbol_table().unwrap();
            let fsrc = fsym.source_info().unwrap();
            for (line, addr) in fsym.line_iter() {
                let want = fsrc.read_line(line);
                let l2 = sym.rev_lookup_line(addr).ok_or_else(|| format!("{tr:?}: address x{addr:04X} (file {fi}, line {line}) has no source line after linking"))?;
                let got = src.read_line(l2);
                if got != want {
                    return Err(format!("{tr:?}: address x{addr:04X} came from file {fi} line {line} = {want:?}, after linking it reads line {l2} = {got:?}"));
                }
                st.class("line-checked");
            }
        }
        let text = src.source();
        for (name, _, _) in sym.label_iter() {
            let sp = sym.get_label_source(name).ok_or_else(|| format!("{tr:?}: label {name} has no source span"))?;
            let got = text.get(sp.clone());
            if !got.is_some_and(|g| g.eq_ignore_ascii_case(name)) {
                return Err(format!("{tr:?}: label {name} is reported at {sp:?} = {got:?} of the combined source, which is not a spelling of the label"));
            }
            st.class("label-checked");
        }
    }
    Ok(())
}

pub fn check(tape: &[u32], st: &mut Stats) -> Result<(), String> {
    check_files(&decode(tape), st)
}

pub fn describe(tape: &[u32]) -> Value {
    json!({"files": decode(tape).iter().map(|f| f.rendered.text.clone()).collect::<Vec<_>>()})
}

pub fn run(ctx: &Ctx) -> Outcome {
    let mut out = Outcome::new(
        "pairs and triples of generated files (random surface syntax, labels, externals; a quarter of the sets contain a file without any memory-occupying statement: only an .external, only an empty block, or both) assembled with debug symbols and linked in every order and bracketing; for every (line, address) of every input the linked rev_lookup_line(address) must read the same text \
         as the input's line, and every label's get_label_source must slice the combined source to a spelling of the label; an evaluation is one link tree; non-trivial = a non-first file has a label and a mapped line; distinct by file texts",
    );
    let cfg = TapeCfg::new(ctx, 1500, 50_000, 2500);
    out.shards = cfg.shards;
    out.absorb(tape_search(ctx, "main", &cfg, check, describe));
    out.essential = ["files:2", "files:3", "line-checked", "label-checked", "file-without-addressed-statement:first", "file-without-addressed-statement:later"].iter().map(|s| s.to_string()).collect();
    out
}

pub fn replay(_ctx: &Ctx, case: &Value, st: &mut Stats) -> Result<(), String> {
    if let Some(files) = case["files"].as_array() {
        let mut v = vec![];
        for f in files {
            let src = f.as_str().ok_or("bad file")?;
            let (prog, layout) = crate::model::stmt::parse_source(src)?;
            let model = crate::model::asm::asm_model(&prog);
            v.push(SrcFile { prog, rendered: crate::model::stmt::Rendered { text: src.to_string(), layout, features: Default::default() }, model });
        }
        return check_files(&v, st);
    }
    let tape: Vec<u32> = serde_json::from_value(case["tape"].clone()).map_err(|e| e.to_string())?;
    check(&tape, st)
}
