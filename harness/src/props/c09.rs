//! C09 — User-mode code cannot touch memory or state outside user space.
use crate::driver::*;
use crate::model::cpu::*;
use crate::model::isa::{self, MInstr};
use crate::props::simrig::*;
use crate::tape::Tape;
use lc3_ensemble::sim::SimErr;
use serde_json::Value;

pub fn gen_attack(t: &mut Tape) -> StateCase {
    let mut c = gen_state(t, false);
    let s = &mut c.spec;
    s.ignore_priv = false;
    s.strict = false;
    s.psr |= 0x8000;
    // user stack pointer in R6, supervisor stack sane (so that real-trap entries are well defined)
    s.saved_sp = *t.choose(&[0x3000u16, 0x2FFE, 0x2000, 0x0300]);
    if s.kbd.as_ref().is_none_or(|k| k.is_empty()) {
        s.kbd = Some(vec![0x41, 0x42]);
    }
    s.kbd_ie = false;
    s.display = true;
    s.extra_iregs.clear();
    for p in c.plan.iter_mut() {
        *p = None;
    }
    // start in (or right at the edge of) user space most of the time
    if t.chance(5, 6) {
        let old = s.pc;
        let new = *t.choose(&[0x3000u16, 0x3001, 0x5000, 0xFDF8, 0xFDFC, 0xFDFE, 0xFDFF]);
        for (a, _) in s.overlay.iter_mut() {
            if a.wrapping_sub(old) < 16 {
                *a = new.wrapping_add(a.wrapping_sub(old));
            }
        }
        s.pc = new;
    }
    c.steps = c.steps.min(16);
    c
}

fn in_user(a: u16) -> bool {
    (USER_START..IO_START).contains(&a)
}

/// Addresses the instruction accesses, in order (stops at the first one outside user space).
fn operand_addrs(i: &MInstr, pc1: u16, regs: &[u16; 8], mem: &dyn Fn(u16) -> u16) -> Vec<u16> {
    let so = |o: i16| o as u16;
    match *i {
        MInstr::Ld { off, .. } | MInstr::St { off, .. } => vec![pc1.wrapping_add(so(off))],
        MInstr::Ldr { base, off, .. } | MInstr::Str { base, off, .. } => vec![regs[base as usize].wrapping_add(so(off))],
        MInstr::Ldi { off, .. } | MInstr::Sti { off, .. } => {
            let p = pc1.wrapping_add(so(off));
            if in_user(p) {
                vec![p, mem(p)]
            } else {
                vec![p]
            }
        }
        _ => vec![],
    }
}

struct Snap {
    regs: [u16; 8],
    pc: u16,
    psr: u16,
    low: Vec<u16>,
    user: Vec<u16>,
    io: Vec<u16>,
    kbd: Vec<u8>,
    display: Vec<u8>,
}
fn snap(rig: &Rig) -> Snap {
    let mut regs = [0; 8];
    for i in 0..8 {
        regs[i] = rig.sim.reg_file[reg(i)].get();
    }
    Snap {
        regs,
        pc: rig.sim.pc,
        psr: rig.sim.psr().get(),
        low: (0..USER_START).map(|a| rig.sim.mem[a].get()).collect(),
        user: (USER_START..IO_START).map(|a| rig.sim.mem[a].get()).collect(),
        io: (IO_START..=u16::MAX).map(|a| rig.sim.mem[a].get()).collect(),
        kbd: rig.kbd.as_ref().map(|k| k.read().unwrap().iter().copied().collect()).unwrap_or_default(),
        display: rig.display.as_ref().map(|d| d.read().unwrap().clone()).unwrap_or_default(),
    }
}
fn diff_outside_user(a: &Snap, b: &Snap, except: &[u16]) -> Option<String> {
    for (i, (x, y)) in a.low.iter().zip(&b.low).enumerate() {
        if x != y && !except.contains(&(i as u16)) {
            return Some(format!("supervisor memory x{i:04X} changed from x{x:04X} to x{y:04X}"));
        }
    }
    for (i, (x, y)) in a.io.iter().zip(&b.io).enumerate() {
        let addr = IO_START + i as u16;
        // the SSP observation port mirror is refreshed by the harness itself
        if x != y && addr != SSP_PORT && !except.contains(&addr) {
            return Some(format!("I/O page word x{addr:04X} changed from x{x:04X} to x{y:04X}"));
        }
    }
    if a.kbd != b.kbd {
        return Some(format!("keyboard queue changed from {:?} to {:?}", a.kbd, b.kbd));
    }
    if a.display != b.display {
        return Some(format!("display changed from {:?} to {:?}", a.display, b.display));
    }
    None
}

pub fn check(tape: &[u32], st: &mut Stats) -> Result<(), String> {
    let mut t = Tape::new(tape);
    let mut c = gen_attack(&mut t);
    // (read after the case) a quarter of the attacks run in strict mode on a machine whose words and registers are all
    // initialized: strict mode then never reports anything (C14) and must enforce exactly the same boundaries
    let strict_full = t.chance(1, 4);
    c.spec.strict = strict_full;
    let mut rig = build_rig(&c.spec);
    if strict_full {
        for addr in 0..=u16::MAX {
            let v = rig.sim.mem[addr].get();
            rig.sim.mem[addr].set(v);
        }
        for i in 0..8 {
            let v = rig.sim.reg_file[reg(i)].get();
            rig.sim.reg_file[reg(i)].set(v);
        }
        st.class("strict-mode-on-fully-initialized-machine");
    }
    let real = c.spec.real_traps;
    let mut nontrivial = false;
    for step in 0..c.steps {
        let before = snap(&rig);
        if before.psr & 0x8000 == 0 {
            // no longer in user mode (a trap or an exception handler is running): outside this property
            st.class("left-user-mode");
            break;
        }
        let pc = before.pc;
        let word = rig.sim.mem[pc].get();
        let dec = isa::dec(word).ok();
        let fetch_bad = !in_user(pc);
        let mem = |a: u16| before.user[(a - USER_START) as usize];
        let ops = if fetch_bad { vec![] } else { dec.as_ref().map(|i| operand_addrs(i, pc.wrapping_add(1), &before.regs, &mem)).unwrap_or_default() };
        let bad_operand = ops.iter().copied().find(|a| !in_user(*a));
        let is_rti = !fetch_bad && matches!(dec, Some(MInstr::Rti));
        let is_trap = !fetch_bad && matches!(dec, Some(MInstr::Trap { .. }));
        let violating = fetch_bad || bad_operand.is_some() || is_rti;
        let near = |a: u16| [0x2FFFu16, 0x3000, 0xFDFF, 0xFE00].iter().any(|b| a.abs_diff(*b) <= 1) || a >= IO_START;
        if fetch_bad && near(pc) || bad_operand.is_some_and(near) {
            nontrivial = true;
        }
        rig.sim.observer.clear();
        let res = rig.sim.step_in();
        let after = snap(&rig);
        let what = format!("step {step}: user-mode {} at x{pc:04X}", dec.map(|i| format!("{i:?}")).unwrap_or(format!("word x{word:04X}")));
        if violating {
            let kind = if fetch_bad { "fetch" } else if is_rti { "rti" } else { "operand" };
            st.class(&format!("attack:{kind}:{}", if real { "real" } else { "virtual" }));
            if let Some(a) = bad_operand {
                st.class(&format!("target:{}", match a { 0..=0x2FFF => "below-user", 0xFE00..=0xFFFF => "io-page", _ => "?" }));
            }
            if !real {
                match &res {
                    Err(SimErr::AccessViolation) if !is_rti => {}
                    Err(SimErr::PrivilegeViolation) if is_rti => {}
                    other => return Err(format!("{what}: expected an {} violation, got {other:?}", if is_rti { "privilege" } else { "access" })),
                }
                if after.regs != before.regs || after.psr != before.psr {
                    return Err(format!("{what}: the rejected access changed registers/PSR: {:04X?}/{:04X} -> {:04X?}/{:04X}", before.regs, before.psr, after.regs, after.psr));
                }
                if let Some(d) = diff_outside_user(&before, &after, &[]) {
                    return Err(format!("{what}: the rejected access had an effect: {d}"));
                }
                if before.user != after.user {
                    return Err(format!("{what}: the rejected access changed user memory"));
                }
                break;
            } else {
                if res.is_err() {
                    return Err(format!("{what}: under real traps the violation must vector to the OS, got {res:?}"));
                }
                let vect = if is_rti { 0x100 } else { 0x102 };
                let handler = before.low[vect];
                if after.pc != handler {
                    return Err(format!("{what}: PC = x{:04X} after the violation, the exception vector x{vect:04X} holds x{handler:04X}", after.pc));
                }
                if after.psr & 0x8000 != 0 {
                    return Err(format!("{what}: still in user mode after the exception entry"));
                }
                let ssp = c.spec.saved_sp;
                let s1 = ssp.wrapping_sub(1);
                let s2 = ssp.wrapping_sub(2);
                let stacked_psr = rig.sim.mem[s1].get();
                let stacked_pc = rig.sim.mem[s2].get();
                if stacked_psr != before.psr {
                    return Err(format!("{what}: old PSR x{:04X} not saved on the supervisor stack (found x{stacked_psr:04X} at x{s1:04X})", before.psr));
                }
                if stacked_pc != pc && stacked_pc != pc.wrapping_add(1) {
                    return Err(format!("{what}: saved PC x{stacked_pc:04X} is neither the faulting instruction nor its successor"));
                }
                if let Some(d) = diff_outside_user(&before, &after, &[s1, s2]) {
                    return Err(format!("{what}: the vectored violation had an effect outside the supervisor stack: {d}"));
                }
                if before.user != after.user && !(in_user(s1) || in_user(s2)) {
                    return Err(format!("{what}: the vectored violation changed user memory"));
                }
                // observer cross-check: nothing outside user space except vector entry and the two stack words
                for a in (0..USER_START).chain(IO_START..=u16::MAX) {
                    let acc = rig.sim.observer.get_mem_accesses(a);
                    if acc.accessed() && a != vect as u16 && a != s1 && a != s2 {
                        return Err(format!("{what}: the observer reports an access to x{a:04X} during the rejected instruction"));
                    }
                }
                break;
            }
        } else if !is_trap && dec.is_some() {
            // legal user-mode instruction: nothing outside user space may change
            st.class("legal-user-step");
            if res.is_err() {
                // decode errors etc. are not this property's business
                break;
            }
            if let Some(d) = diff_outside_user(&before, &after, &[]) {
                return Err(format!("{what}: a user-mode step that only touches user space changed state outside it: {d}"));
            }
            for a in (0..USER_START).chain(IO_START..=u16::MAX) {
                if rig.sim.observer.get_mem_accesses(a).accessed() {
                    return Err(format!("{what}: the observer reports an access to x{a:04X} although every operand is in user space"));
                }
            }
        } else {
            st.class(if is_trap { "trap-leaves-user-mode" } else { "undecodable" });
            if res.is_err() {
                break;
            }
        }
    }
    if nontrivial {
        st.nontrivial(tape);
        if st.want_sample() {
            st.sample(describe_state(&c));
        }
    }
    Ok(())
}

pub fn describe(tape: &[u32]) -> Value {
    let mut t = Tape::new(tape);
    let mut v = describe_state(&gen_attack(&mut t));
    v["strict_mode_on_fully_initialized_machine"] = serde_json::json!(t.chance(1, 4));
    v
}

pub fn run(ctx: &Ctx) -> Outcome {
    let mut out = Outcome::new(
        "adversarial user-mode states (privilege checks on, real and virtual traps, keyboard non-empty, display attached): instruction windows at x3000/xFDF8..xFDFF (fall-through into xFE00) whose LD/ST/LDR/STR/LDI/STI/JMP/JSRR/BR/RTI operands are aimed at \
         {x0000,x2FFF,x3000,xFDFF,xFE00,xFE02,xFE04,xFE06,xFFFC,xFFFE,xFFFF,random}; per step, operand addresses are computed from the decoded word and the register snapshot: if the fetch or any operand is outside x3000-xFDFF (or RTI) the step must be an access/privilege violation with registers, PSR, all memory, keyboard and display unchanged \
         (virtual) or vector to mem[x102]/mem[x100] in supervisor mode with old PSR/PC on the supervisor stack and nothing else outside user space changed (real), the observer showing no other outside access; every legal user step leaves memory below x3000, the I/O page and both devices bit-identical; \
         non-trivial = a rejected target within 1 of a protection boundary or in the I/O page; distinct by tape",
    );
    let cfg = TapeCfg::new(ctx, 8000, 400_000, 400);
    out.shards = cfg.shards;
    out.absorb(tape_search(ctx, "main", &cfg, check, describe));
    out.essential = ["attack:fetch:virtual", "attack:fetch:real", "attack:operand:virtual", "attack:operand:real", "attack:rti:virtual", "attack:rti:real", "target:below-user", "target:io-page", "legal-user-step", "strict-mode-on-fully-initialized-machine"].iter().map(|s| s.to_string()).collect();
    out
}

pub fn replay(_ctx: &Ctx, case: &Value, st: &mut Stats) -> Result<(), String> {
    let tape: Vec<u32> = serde_json::from_value(case["tape"].clone()).map_err(|e| e.to_string())?;
    check(&tape, st)
}
