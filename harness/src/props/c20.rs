//! C20 — Linking unions images, resolves externals, and is order-independent.
use crate::driver::*;
use crate::gen::link::{build_obj, gen_link_set, link_model, LinkCfg, LinkModel, SrcFile};
use crate::tape::Tape;
use lc3_ensemble::asm::{assemble_debug, ObjectFile};
use lc3_ensemble::parse::parse_ast;
use serde_json::{json, Value};
use std::collections::{BTreeMap, BTreeSet};

/// All link trees over the leaves `items` (every order, every bracketing), as closures over indices.
#[derive(Clone, Debug)]
pub enum Tree {
    Leaf(usize),
    Node(Box<Tree>, Box<Tree>),
}
fn trees_over(seq: &[usize]) -> Vec<Tree> {
    if seq.len() == 1 {
        return vec![Tree::Leaf(seq[0])];
    }
    let mut out = vec![];
    for split in 1..seq.len() {
        for l in trees_over(&seq[..split]) {
            for r in trees_over(&seq[split..]) {
                out.push(Tree::Node(Box::new(l.clone()), Box::new(r)));
            }
        }
    }
    out
}
fn permutations(n: usize) -> Vec<Vec<usize>> {
    fn rec(cur: &mut Vec<usize>, used: &mut Vec<bool>, n: usize, out: &mut Vec<Vec<usize>>) {
        if cur.len() == n {
            out.push(cur.clone());
            return;
        }
        for i in 0..n {
            if !used[i] {
                used[i] = true;
                cur.push(i);
                rec(cur, used, n, out);
                cur.pop();
                used[i] = false;
            }
        }
    }
    let mut out = vec![];
    rec(&mut vec![], &mut vec![false; n], n, &mut out);
    out
}
pub fn all_trees(n: usize) -> Vec<Tree> {
    permutations(n).iter().flat_map(|p| trees_over(p)).collect()
}
fn show(t: &Tree) -> String {
    match t {
        Tree::Leaf(i) => format!("{}", (b'A' + *i as u8) as char),
        Tree::Node(a, b) => format!("({}+{})", show(a), show(b)),
    }
}
fn eval(t: &Tree, objs: &[ObjectFile]) -> Result<ObjectFile, String> {
    match t {
        Tree::Leaf(i) => Ok(objs[*i].clone()),
        Tree::Node(a, b) => {
            let x = eval(a, objs)?;
            let y = eval(b, objs)?;
            no_panic("ObjectFile::link", || ObjectFile::link(x, y))?.map_err(|e| format!("{:?}", e.kind))
        }
    }
}

/// Observes the pending relocations of `obj` behaviourally: link a probe file that defines
/// every still-external label at a marker address and see which cells change.
fn observe_pending(obj: &ObjectFile) -> Result<BTreeSet<(u16, String)>, String> {
    let sym = obj.symbol_table().ok_or("linked object has no symbol table")?;
    let exts: Vec<String> = sym.label_iter().filter(|(_, _, e)| *e).map(|(n, _, _)| n.to_string()).collect();
    if exts.is_empty() {
        return Ok(BTreeSet::new());
    }
    let mut src = String::from(".orig xE000\n");
    for e in &exts {
        src.push_str(&format!("{e} .fill 0\n"));
    }
    src.push_str(".end\n");
    let probe = assemble_debug(parse_ast(&src).map_err(|e| format!("probe: {e:?}"))?, &src).map_err(|e| format!("probe: {e:?}"))?;
    let before: BTreeMap<u16, Option<u16>> = obj.addr_iter().collect();
    let linked = no_panic("link with probe", || ObjectFile::link(obj.clone(), probe))?.map_err(|e| format!("linking a file that defines the pending externals failed: {:?}", e.kind))?;
    let mut out = BTreeSet::new();
    for (a, w) in linked.addr_iter() {
        if a >= 0xE000 && (a as usize) < 0xE000 + exts.len() {
            continue;
        }
        if before.get(&a) != Some(&w) {
            match w {
                Some(v) if v >= 0xE000 && ((v - 0xE000) as usize) < exts.len() => {
                    out.insert((a, exts[(v - 0xE000) as usize].clone()));
                }
                _ => return Err(format!("after defining the pending externals, cell x{a:04X} changed from {:?} to {w:?}", before.get(&a))),
            }
        }
    }
    Ok(out)
}

fn compare(obj: &ObjectFile, m: &LinkModel, tree: &str) -> Result<(), String> {
    let img: BTreeMap<u16, Option<u16>> = obj.addr_iter().collect();
    if img != m.image {
        for (a, w) in &m.image {
            if img.get(a) != Some(w) {
                return Err(format!("{tree}: cell x{a:04X} holds {:?}, expected {w:?}", img.get(a)));
            }
        }
        return Err(format!("{tree}: linked image defines addresses that no input file defines"));
    }
    let sym = obj.symbol_table().ok_or_else(|| format!("{tree}: no symbol table"))?;
    let labels: BTreeMap<String, (u16, bool)> = sym.label_iter().map(|(n, a, e)| (n.to_string(), (a, e))).collect();
    if labels != m.labels {
        return Err(format!("{tree}: labels {labels:?}, expected {:?}", m.labels));
    }
    let pending = observe_pending(obj).map_err(|e| format!("{tree}: {e}"))?;
    if pending != m.pending {
        return Err(format!("{tree}: pending relocations {pending:?}, expected {:?}", m.pending));
    }
    Ok(())
}

pub fn decode(tape: &[u32]) -> Vec<SrcFile> {
    let mut t = Tape::new(tape);
    gen_link_set(&mut t, &LinkCfg { max_files: 4, conflict_8: 1, overlaps: true, wild_render: false })
}

pub fn check_files(files: &[SrcFile], st: &mut Stats) -> Result<(), String> {
    if files.len() < 2 {
        st.class("fewer-than-2-files");
        return Ok(());
    }
    let objs: Vec<ObjectFile> = files.iter().map(|f| build_obj(f, true)).collect::<Result<_, _>>()?;
    let model = link_model(&files.iter().map(|f| &f.model).collect::<Vec<_>>());
    st.class(&format!("files:{}", files.len()));
    st.class(if model.ok { "link-should-succeed" } else { "link-should-fail" });
    if model.resolved > 0 {
        st.class("external-resolved");
    }
    if !model.pending.is_empty() {
        st.class("external-pending");
    }
    // an external label whose definition sits at address 0 (the placeholder address of external labels)
    if files.iter().any(|f| f.model.labels.iter().any(|(n, i)| i.external && files.iter().any(|g| g.model.labels.get(n).is_some_and(|d| !d.external && d.addr == 0)))) {
        st.class("external-defined-at-address-0");
    }
    if files.iter().enumerate().any(|(i, f)| f.model.labels.iter().any(|(n, d)| !d.external && files[i + 1..].iter().any(|g| g.model.labels.get(n).is_some_and(|e| !e.external && e.addr == d.addr)))) {
        st.class("label-defined-at-the-same-address-in-two-files");
    }
    if files.iter().any(|f| {
        // a use that precedes its .external declaration
        let mut declared: BTreeSet<String> = BTreeSet::new();
        let mut found = false;
        for s in &f.prog {
            match &s.kind {
                crate::model::stmt::MKind::External(l) => {
                    declared.insert(l.to_uppercase());
                }
                k => {
                    if let Some(l) = k.label_operand() {
                        if f.model.labels.get(&l.to_uppercase()).is_some_and(|i| i.external) && !declared.contains(&l.to_uppercase()) {
                            found = true;
                        }
                    }
                }
            }
        }
        found
    }) {
        st.class("use-before-declaration");
    }
    if model.resolved > 0 || !model.ok {
        st.nontrivial(&files.iter().map(|f| f.rendered.text.clone()).collect::<Vec<_>>());
        if st.want_sample() {
            st.sample(json!({"files": files.iter().map(|f| f.rendered.text.clone()).collect::<Vec<_>>(), "expected_success": model.ok}));
        }
    }
    let trees = all_trees(files.len());
    st.evaluations += trees.len() as u64 - 1;
    for tr in &trees {
        let name = show(tr);
        match eval(tr, &objs) {
            Ok(o) => {
                if !model.ok {
                    return Err(format!("{name}: link succeeded although blocks overlap or a label is defined at two addresses"));
                }
                compare(&o, &model, &name)?;
            }
            Err(e) if e.starts_with("panic") => return Err(format!("{name}: {e}")),
            Err(e) => {
                if model.ok {
                    return Err(format!("{name}: link failed with {e} although blocks are disjoint and labels consistent"));
                }
            }
        }
    }
    Ok(())
}

pub fn check(tape: &[u32], st: &mut Stats) -> Result<(), String> {
    check_files(&decode(tape), st)
}

pub fn describe(tape: &[u32]) -> Value {
    json!({"files": decode(tape).iter().map(|f| f.rendered.text.clone()).collect::<Vec<_>>()})
}

pub fn run(ctx: &Ctx) -> Outcome {
    let mut out = Outcome::new(
        "sets of 2-4 generated files sharing a label pool (definitions, .external declarations before/between/after their .fill uses, occasional second definitions (also at the same address: a label on the `.end` of one file's block and on the first word of a touching block of another file), touching/overlapping/identical-origin blocks) \
         assembled with debug symbols and linked in every order and every bracketing (2/12/120 trees); model: success <=> blocks pairwise disjoint and no label defined at two addresses; \
         on success image == union with resolved .fill cells, labels/flags as modelled, pending relocations (observed by linking a probe definer) == uses of still-undefined externals, for every tree; \
         an evaluation is one link tree; non-trivial = an external gets resolved or a conflict is present; distinct by file texts",
    );
    let cfg = TapeCfg::new(ctx, 1500, 40_000, 1500);
    out.shards = cfg.shards;
    out.absorb(tape_search(ctx, "main", &cfg, check, describe));
    out.essential = ["files:2", "files:3", "files:4", "link-should-succeed", "link-should-fail", "external-resolved", "external-pending", "use-before-declaration", "external-defined-at-address-0", "label-defined-at-the-same-address-in-two-files"].iter().map(|s| s.to_string()).collect();
    out
}

pub fn replay(_ctx: &Ctx, case: &Value, st: &mut Stats) -> Result<(), String> {
    if let Some(files) = case["files"].as_array() {
        let mut v = vec![];
        for f in files {
            let src = f.as_str().ok_or("bad file")?;
            let (prog, layout) = crate::model::stmt::parse_source(src)?;
            let model = crate::model::asm::asm_model(&prog);
            v.push(SrcFile { prog, rendered: crate::model::stmt::Rendered { text: src.to_string(), layout, features: Default::default() }, model });
        }
        return check_files(&v, st);
    }
    let tape: Vec<u32> = serde_json::from_value(case["tape"].clone()).map_err(|e| e.to_string())?;
    check(&tape, st)
}
