//! C12 — Real and virtual traps agree except at HALT and exceptions.
use crate::driver::*;
use crate::gen::exec::{gen_exec, Ending, ExecCfg, ExecProg};
use crate::model::cpu::*;
use crate::props::simrig::*;
use crate::tape::Tape;
use lc3_ensemble::sim::mem::MachineInitStrategy;
use lc3_ensemble::sim::SimErr;
use serde_json::Value;

/// Trap vectors without a service routine (the OS routes them to its "bad trap" routine, which prints a message and halts).
const BAD_VECTS: &[u16] = &[0x00, 0x01, 0x02, 0x03, 0x1F, 0x26, 0x7F, 0x80, 0xFF];

pub fn decode(tape: &[u32]) -> (ExecProg, MachineInitStrategy, Option<u16>) {
    let mut t = Tape::new(tape);
    let mut p = gen_exec(&mut t, &ExecCfg::default()).unwrap();
    let init = if t.chance(1, 2) { MachineInitStrategy::Seeded { seed: t.raw() as u64 } } else { MachineInitStrategy::Known { value: t.u16() } };
    // (read last, so that tapes stored before this was added decode to the same program)
    // a fifth of the halting programs end in a trap through an unassigned vector instead of HALT: neither HALT nor an
    // exception, so both settings must run the same OS code (message, then halt) with the same visible result
    let bad = if p.ending == Ending::Halt && t.chance(1, 5) { Some(*t.choose(BAD_VECTS)) } else { None };
    if let Some(v) = bad {
        for w in p.words.iter_mut().filter(|w| **w == 0xF025) {
            *w = 0xF000 | v;
        }
        p.listing.push(format!("; every HALT (xF025) replaced by TRAP x{v:02X} (unassigned vector)"));
    }
    (p, init, bad)
}

pub fn check(tape: &[u32], st: &mut Stats) -> Result<(), String> {
    let (p, init, bad_trap) = decode(tape);
    let mut v = build_rig(&spec_for_prog(&p, false, false, init));
    let mut r = build_rig(&spec_for_prog(&p, true, false, init));
    let budget = 200_000;
    let rv = v.sim.run_with_limit(budget);
    let rr = r.sim.run_with_limit(budget);
    let dv = v.display.as_ref().unwrap().read().unwrap().clone();
    let dr = r.display.as_ref().unwrap().read().unwrap().clone();
    st.class(&format!("ending:{:?}", p.ending));
    if let Some(vect) = bad_trap {
        st.class("ends-in-trap-through-unassigned-vector");
        if matches!(vect, 0 | 1 | 2) {
            st.class("unassigned-vector-x00-x02");
        }
    }
    if p.info.trap_in_leaf_without_r7_spill {
        st.class("io-trap-in-leaf-subroutine-without-R7-spill");
    }
    if p.info.fault_in_open_frame {
        st.class("fault-inside-open-subroutine-frame");
    }
    if matches!(rv, Ok(())) && !v.sim.hit_halt() {
        st.inconclusive += 1;
        st.class("budget-exhausted");
        return Ok(());
    }
    match p.ending {
        Ending::Halt => {
            if let (Err(e), Some(vect)) = (&rv, bad_trap) {
                // also what the real-trap run does below: the vector table entry is the OS's bad-trap routine
                return Err(format!("a TRAP x{vect:02X} (unassigned vector) fails under virtual traps with {e:?} instead of running the OS routine behind the vector, as it does under real traps ({rr:?}, halted: {})", r.sim.hit_halt()));
            }
            if let Err(e) = &rv {
                return Err(format!("HARNESS: halting program failed under virtual traps: {e:?}"));
            }
            if let Err(e) = &rr {
                return Err(format!("a program that halts under virtual traps fails under real traps: {e:?}"));
            }
            if !r.sim.hit_halt() {
                return Err("under real traps the program did not stop through the OS (hit_halt() false)".into());
            }
            if dv != dr {
                return Err(format!("display differs: virtual {dv:?}, real {dr:?}"));
            }
            for i in 0..6 {
                let (a, b) = (v.sim.reg_file[reg(i)].get(), r.sim.reg_file[reg(i)].get());
                if a != b {
                    return Err(format!("R{i} differs after HALT: virtual x{a:04X}, real x{b:04X}"));
                }
            }
            for a in USER_START..IO_START {
                let (x, y) = (v.sim.mem[a].get(), r.sim.mem[a].get());
                if x != y {
                    return Err(format!("user memory x{a:04X} differs: virtual x{x:04X}, real x{y:04X}"));
                }
            }
        }
        e => {
            let want = match e {
                Ending::AcvLoad | Ending::AcvStore | Ending::JumpOut => "AccessViolation",
                Ending::Rti => "PrivilegeViolation",
                Ending::Illegal => "IllegalOpcode",
                _ => "InvalidInstrFormat",
            };
            match &rv {
                Err(SimErr::AccessViolation) if want == "AccessViolation" => {}
                Err(SimErr::PrivilegeViolation) if want == "PrivilegeViolation" => {}
                Err(SimErr::IllegalOpcode) if want == "IllegalOpcode" => {}
                Err(SimErr::InvalidInstrFormat) if want == "InvalidInstrFormat" => {}
                other => return Err(format!("under virtual traps the program should stop with {want}, got {other:?}")),
            }
            if let Err(e) = &rr {
                return Err(format!("under real traps the exception must be handled by the OS, run returned {e:?}"));
            }
            if !r.sim.hit_halt() {
                return Err("under real traps the OS exception handler did not halt the machine".into());
            }
            let mut want_disp = dv.clone();
            want_disp.extend_from_slice(e.os_message().as_bytes());
            if dr != want_disp {
                return Err(format!(
                    "under real traps the display shows {:?}, expected the virtual-run output followed by the OS message {:?}",
                    String::from_utf8_lossy(&dr),
                    e.os_message()
                ));
            }
        }
    }
    if (p.info.traps >= 1 && p.info.calls >= 1) || p.ending != Ending::Halt {
        st.nontrivial(&p.words);
        if st.want_sample() {
            st.sample(describe_prog(&p));
        }
    }
    Ok(())
}

pub fn describe(tape: &[u32]) -> Value {
    let (p, _, bad) = decode(tape);
    let mut v = describe_prog(&p);
    v["unassigned_trap_vector_instead_of_halt"] = serde_json::json!(bad.map(|b| format!("x{b:02X}")));
    v
}

pub fn run(ctx: &Ctx) -> Outcome {
    let mut out = Outcome::new(
        "generated user programs (ALU/memory snippets, counted loops, nested subroutines with stack frames, leaf subroutines that do not spill R7 around their I/O traps, OUT/PUTS/PUTSP/GETC/IN), half ending in HALT (a fifth of those through a TRAP with an unassigned vector x00-x03/x1F/x26/x7F/x80/xFF, i.e. the OS's bad-trap routine, instead of HALT) and half in one injected fault, half of those while a subroutine frame is open (load/store outside user space, jump to x0000, RTI, reserved opcode, malformed RTI word), \
         each run twice from identical machines and keyboard queues: virtual and real traps; halting programs: equal display, R0-R5, user memory, real run stops through the OS; faulting programs: virtual run returns the matching error, real run prints the OS message for that exception after the same output and halts; \
         non-trivial = program has >=1 I/O trap and >=1 call, or faults; distinct by program words",
    );
    let cfg = TapeCfg::new(ctx, 1500, 60_000, 600);
    out.shards = cfg.shards;
    out.absorb(tape_search(ctx, "main", &cfg, check, describe));
    out.assumptions.push("the OS messages are the literal texts of the pinned OS image (\"\\n--- Access violation ---\\n\" etc.); the property only says that the OS message for that exception is printed".into());
    out.essential = ["ending:Halt", "ending:AcvLoad", "ending:AcvStore", "ending:JumpOut", "ending:Rti", "ending:Illegal", "ending:BadFormat", "fault-inside-open-subroutine-frame", "io-trap-in-leaf-subroutine-without-R7-spill", "ends-in-trap-through-unassigned-vector", "unassigned-vector-x00-x02"].iter().map(|s| s.to_string()).collect();
    out
}

pub fn replay(_ctx: &Ctx, case: &Value, st: &mut Stats) -> Result<(), String> {
    let tape: Vec<u32> = serde_json::from_value(case["tape"].clone()).map_err(|e| e.to_string())?;
    check(&tape, st)
}
