//! C25 — Source position queries are consistent.
use crate::driver::*;
use crate::tape::Tape;
use lc3_ensemble::asm::SourceInfo;
use serde_json::{json, Value};

pub fn decode(tape: &[u32]) -> String {
    let mut t = Tape::new(tape);
    let len = t.weighted(&[1, 3, 6, 6, 3]);
    let len = match len {
        0 => 0,
        1 => 1 + t.pick(3),
        2 => 4 + t.pick(10),
        3 => 14 + t.pick(25),
        _ => 39 + t.pick(30),
    };
    const ALPHA: &[&str] = &["\n", "\n", "\r\n", "\r", " ", "\t", "a", "é", ";", "ab c", "  ", "\n", " ", "\u{b}", "\u{c}", "\u{a0}", "\u{85}", "\u{2028}", "\u{3000}"];
    let mut s = String::new();
    for _ in 0..len {
        s.push_str(ALPHA[t.pick(ALPHA.len())]);
    }
    s
}

pub fn check_text(src: &str, st: &mut Stats) -> Result<(), String> {
    let si = no_panic("SourceInfo::new", || SourceInfo::new(src))?;
    // model: split on '\n'
    let pieces: Vec<&str> = src.split('\n').collect();
    let mut starts = vec![0usize];
    for p in &pieces[..pieces.len() - 1] {
        starts.push(starts.last().unwrap() + p.len() + 1);
    }
    let n = pieces.len();
    if si.count_lines() != n {
        return Err(format!("count_lines() = {}, the text has {} newline(s)", si.count_lines(), n - 1));
    }
    if si.source() != src {
        return Err("source() differs from the input".into());
    }
    for i in 0..n + 3 {
        let span = no_panic("line_span", || si.line_span(i))?;
        let line = no_panic("read_line", || si.read_line(i).map(|s| s.to_string()))?;
        if i >= n {
            if span.is_some() || line.is_some() {
                return Err(format!("line {i} does not exist (count {n}) but line_span/read_line returned {span:?}/{line:?}"));
            }
            continue;
        }
        let want = pieces[i].trim();
        let Some(span) = span else { return Err(format!("line_span({i}) = None for an existing line")) };
        if line.as_deref() != Some(want) {
            return Err(format!("read_line({i}) = {line:?}, the line without surrounding whitespace is {want:?}"));
        }
        if span.start > span.end || src.get(span.clone()) != Some(want) {
            return Err(format!("line_span({i}) = {span:?} does not slice to the trimmed line {want:?}"));
        }
        let (ls, le) = (starts[i], starts[i] + pieces[i].len());
        if span.start < ls || span.end > le + 1 {
            return Err(format!("line_span({i}) = {span:?} lies outside line {i} ({ls}..{le})"));
        }
    }
    let len = src.len();
    st.evaluations += (len + 10) as u64;
    for k in 0..=len + 10 {
        let got = no_panic("get_pos_pair", || si.get_pos_pair(k))?;
        let line = if k <= len { src.as_bytes()[..k].iter().filter(|b| **b == b'\n').count() } else { n - 1 };
        let want = (line, k - starts[line]);
        if got != want {
            return Err(format!("get_pos_pair({k}) = {got:?}, expected {want:?} (text length {len}, line {line} starts at {})", starts[line]));
        }
    }
    if n >= 2 {
        st.nontrivial(src);
        st.class("multi-line");
        if src.contains("\r\n") {
            st.class("crlf");
        }
        if pieces.iter().any(|p| !p.is_empty() && p.trim().is_empty()) {
            st.class("whitespace-only-line");
        }
        if src.ends_with('\n') {
            st.class("ends-with-newline");
        }
        if pieces.iter().any(|p| p.trim() != p.trim_matches(|c: char| c.is_ascii_whitespace())) {
            st.class("line-edged-by-non-ascii-or-vt-whitespace");
        }
        if st.want_sample() {
            st.sample(json!(src));
        }
    }
    Ok(())
}

pub fn check(tape: &[u32], st: &mut Stats) -> Result<(), String> {
    check_text(&decode(tape), st)
}

pub fn run(ctx: &Ctx) -> Outcome {
    let mut out = Outcome::new(
        "strings of 0-70 pieces over {LF, CRLF, CR, space, tab, vertical tab, form feed, U+00A0, U+0085, U+2028, U+3000, 'a', 'é', ';'}; every line index 0..count+2 (count_lines, line_span, read_line) and every character index 0..=len+10 (get_pos_pair) \
         compared with split-on-newline arithmetic; an evaluation is one query; non-trivial = text with >= 2 lines (every such text is queried at all line boundaries and past the end); distinct by text",
    );
    let cfg = TapeCfg::new(ctx, 6000, 200_000, 80);
    out.shards = cfg.shards;
    out.absorb(tape_search(ctx, "main", &cfg, check, |t| json!({"text": decode(t)})));
    out.essential = vec!["multi-line".into(), "crlf".into(), "whitespace-only-line".into(), "ends-with-newline".into(), "line-edged-by-non-ascii-or-vt-whitespace".into()];
    out
}

pub fn replay(_ctx: &Ctx, case: &Value, st: &mut Stats) -> Result<(), String> {
    if let Some(s) = case["text"].as_str() {
        return check_text(s, st);
    }
    let tape: Vec<u32> = serde_json::from_value(case["tape"].clone()).map_err(|e| e.to_string())?;
    check(&tape, st)
}
