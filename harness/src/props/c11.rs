//! C11 — Built-in OS trap routines meet their contracts.
use crate::driver::*;
use crate::model::cpu::*;
use crate::props::simrig::*;
use crate::tape::Tape;
use lc3_ensemble::sim::debug::Breakpoint;
use lc3_ensemble::sim::mem::MachineInitStrategy;
use serde_json::{json, Value};

#[derive(Clone, Debug)]
pub struct TrapCase {
    pub vect: u8,
    pub spec: MachineSpec,
    /// bytes the trap is expected to print
    pub expect_out: Vec<u8>,
    /// does the trap consume one keyboard byte into R0
    pub reads_input: bool,
    pub nontrivial: bool,
    /// GETC/IN only: the keyboard is empty when the trap starts; the bytes arrive after this many instructions
    pub late: Option<u64>,
    pub desc: Value,
}

pub fn decode(tape: &[u32]) -> TrapCase {
    let mut t = Tape::new(tape);
    let vect = 0x20 + t.pick(6) as u8;
    let mut spec = MachineSpec::default();
    spec.real_traps = t.chance(1, 2);
    spec.init = if t.chance(1, 2) { MachineInitStrategy::Seeded { seed: t.raw() as u64 } } else { MachineInitStrategy::Known { value: t.u16() } };
    spec.pc = 0x3000;
    let cc = *t.choose(&[1u16, 2, 4]);
    spec.psr = 0x8000 | cc;
    for i in 0..8 {
        spec.regs[i] = t.u16();
    }
    spec.regs[6] = 0x4000 + t.pick(0xB000) as u16;
    spec.overlay.push((0x3000, 0xF000 | vect as u16));
    spec.overlay.push((0x3001, 0xF025));
    let nk = 1 + t.pick(4);
    let kbd: Vec<u8> = (0..nk).map(|_| if t.chance(1, 4) { *t.choose(&[0u8, 0xFF, 0x80, 0x0A, 0x7F]) } else { t.u8() }).collect();
    spec.kbd = Some(kbd.clone());
    spec.display = true;
    let mut expect_out = vec![];
    let mut reads_input = false;
    let mut nontrivial = false;
    let mut strdesc = Value::Null;
    match vect {
        0x20 => reads_input = true,
        0x21 => expect_out.push(spec.regs[0] as u8),
        0x22 | 0x24 => {
            let len = match t.weighted(&[2, 4, 4, 2]) {
                0 => 0,
                1 => 1 + t.pick(3),
                2 => 4 + t.pick(20),
                _ => 24 + t.pick(37),
            };
            let bytes: Vec<u8> = (0..len).map(|_| if t.chance(1, 3) { *t.choose(&[0x01u8, 0xFF, 0x80, 0x7F, 0x0A, 0x1B]) } else { 0x20 + t.pick(0x5F) as u8 }).collect();
            let words: Vec<u16> = if vect == 0x22 {
                bytes.iter().map(|b| *b as u16).chain([0]).collect()
            } else {
                let mut w: Vec<u16> = bytes.chunks(2).map(|c| c[0] as u16 | ((c.get(1).copied().unwrap_or(0) as u16) << 8)).collect();
                if bytes.len() % 2 == 0 {
                    w.push(0);
                }
                w
            };
            // location: random user address, or so that the last word sits at xFDFF
            let at = if t.chance(1, 4) { 0xFE00 - words.len() as u16 } else { 0x3010 + t.pick(0xC000) as u16 };
            for (i, w) in words.iter().enumerate() {
                spec.overlay.push((at.wrapping_add(i as u16), *w));
            }
            spec.regs[0] = at;
            expect_out = bytes.clone();
            nontrivial = bytes.len() >= 2 || bytes.iter().any(|b| !(0x20..0x7F).contains(b)) || (vect == 0x24 && bytes.len() % 2 == 1);
            strdesc = json!({"at": format!("x{at:04X}"), "bytes": bytes, "packed": vect == 0x24});
        }
        0x23 => {
            reads_input = true;
            expect_out = b"Input character: ".to_vec();
            expect_out.push(kbd[0]);
            nontrivial = true;
        }
        _ => {}
    }
    if vect == 0x20 || vect == 0x21 {
        nontrivial = true;
    }
    let late = (reads_input && t.chance(1, 3)).then(|| 1 + t.pick(400) as u64);
    let desc = json!({"trap": format!("x{vect:02X}"), "keys_arrive_after_instructions": late, "real_traps": spec.real_traps, "regs": spec.regs.iter().map(|r| format!("x{r:04X}")).collect::<Vec<_>>(), "psr": format!("x{:04X}", spec.psr), "keyboard": kbd, "string": strdesc});
    TrapCase { vect, spec, expect_out, reads_input, nontrivial, late, desc }
}

pub fn check(tape: &[u32], st: &mut Stats) -> Result<(), String> {
    let c = decode(tape);
    let mut spec = c.spec.clone();
    if c.late.is_some() {
        spec.kbd = Some(vec![]);
    }
    let mut rig = build_rig(&spec);
    let user_before: Vec<u16> = (USER_START..IO_START).map(|a| rig.sim.mem[a].get()).collect();
    let kbd_before: Vec<u8> = c.spec.kbd.clone().unwrap();
    let name = match c.vect {
        0x20 => "GETC",
        0x21 => "OUT",
        0x22 => "PUTS",
        0x23 => "IN",
        0x24 => "PUTSP",
        _ => "HALT",
    };
    st.class(&format!("{name}:{}", if c.spec.real_traps { "real" } else { "virtual" }));
    if c.vect == 0x25 {
        let r = rig.sim.run_with_limit(5000);
        if let Err(e) = r {
            return Err(format!("HALT: run returned {e:?}"));
        }
        if !rig.sim.hit_halt() {
            return Err("HALT: the machine did not stop (hit_halt() is false after 5000 instructions)".into());
        }
        let disp = rig.display.as_ref().unwrap().read().unwrap().clone();
        if !disp.is_empty() {
            return Err(format!("HALT printed {disp:?}"));
        }
        st.nontrivial(&c.desc.to_string());
        return Ok(());
    }
    rig.sim.breakpoints.insert(Breakpoint::PC(0x3001));
    if let Some(n) = c.late {
        // nothing typed yet: the routine has to wait
        let r = rig.sim.run_with_limit(n);
        if let Err(e) = r {
            return Err(format!("{name} with an empty keyboard: run returned {e:?}"));
        }
        if rig.sim.pc == 0x3001 || rig.sim.hit_breakpoint() {
            return Err(format!("{name}: returned to the caller after {n} instructions although no key had been typed (R0 = x{:04X})", rig.sim.reg_file[reg(0)].get()));
        }
        rig.kbd.as_ref().unwrap().write().unwrap().extend(c.spec.kbd.clone().unwrap());
        st.class(&format!("{name}:keys-arrive-while-waiting"));
    }
    let r = rig.sim.run_with_limit(20_000);
    if let Err(e) = r {
        return Err(format!("{name}: run returned {e:?}"));
    }
    if !rig.sim.hit_breakpoint() || rig.sim.pc != 0x3001 {
        return Err(format!("{name}: did not return to the instruction after the TRAP within 20000 instructions (PC = x{:04X})", rig.sim.pc));
    }
    // output
    let disp = rig.display.as_ref().unwrap().read().unwrap().clone();
    if disp != c.expect_out {
        return Err(format!("{name}: display received {disp:?}, contract says {:?}", c.expect_out));
    }
    // input
    let kbd_after: Vec<u8> = rig.kbd.as_ref().unwrap().read().unwrap().iter().copied().collect();
    let want_kbd: Vec<u8> = if c.reads_input { kbd_before[1..].to_vec() } else { kbd_before.clone() };
    if kbd_after != want_kbd {
        return Err(format!("{name}: keyboard queue is {kbd_after:?} afterwards, expected {want_kbd:?} (before: {kbd_before:?})"));
    }
    // registers
    for i in 0..8 {
        let g = rig.sim.reg_file[reg(i)].get();
        let want = if i == 0 && c.reads_input { kbd_before[0] as u16 } else { c.spec.regs[i] };
        if g != want {
            return Err(format!("{name}: R{i} = x{g:04X} after the trap, expected x{want:04X}"));
        }
    }
    let psr = rig.sim.psr().get();
    if psr != c.spec.psr {
        return Err(format!("{name}: PSR = x{psr:04X} after the trap, it was x{:04X} (condition codes / privilege must be preserved)", c.spec.psr));
    }
    for (i, w) in user_before.iter().enumerate() {
        let a = USER_START + i as u16;
        if rig.sim.mem[a].get() != *w {
            return Err(format!("{name}: user memory x{a:04X} changed from x{w:04X} to x{:04X}", rig.sim.mem[a].get()));
        }
    }
    if c.nontrivial {
        st.nontrivial(&c.desc.to_string());
        if st.want_sample() {
            st.sample(c.desc.clone());
        }
    }
    if c.vect == 0x24 && c.expect_out.len() % 2 == 1 {
        st.class("PUTSP-odd-length");
    }
    if matches!(c.vect, 0x22 | 0x24) && c.expect_out.is_empty() {
        st.class("empty-string");
    }
    Ok(())
}

pub fn describe(tape: &[u32]) -> Value {
    decode(tape).desc
}

pub fn run(ctx: &Ctx) -> Outcome {
    let mut out = Outcome::new(
        "one trap per case invoked from user code (TRAP xNN; HALT) with random R0-R7, condition codes, keyboard queue (bytes 0-255) and, for PUTS/PUTSP, strings of 0-60 bytes x01-xFF at random user addresses (incl. ending at xFDFF; packed strings of odd and even length), real and virtual traps; \
         contract model: exact display bytes, exactly one byte consumed by GETC/IN (R0 = that byte; in a third of these cases the keyboard is empty at first - the routine must still be waiting after 1-400 instructions - and the bytes are typed then), every other register, the PSR and all user memory unchanged, PC at the instruction after the TRAP; HALT stops the machine; \
         non-trivial = string of >=2 bytes / with non-printable bytes / odd packed length, or an I/O character trap; distinct by case description",
    );
    let cfg = TapeCfg::new(ctx, 3000, 150_000, 200);
    out.shards = cfg.shards;
    out.absorb(tape_search(ctx, "main", &cfg, check, describe));
    out.assumptions.push("the IN prompt is the literal text \"Input character: \" (the property says that IN prints its prompt without giving the text; the wording of the pinned OS image is taken as the contract)".into());
    out.essential = ["GETC:real", "GETC:virtual", "OUT:real", "PUTS:virtual", "PUTS:real", "IN:virtual", "IN:real", "PUTSP:real", "PUTSP:virtual", "HALT:real", "HALT:virtual", "PUTSP-odd-length", "empty-string", "GETC:keys-arrive-while-waiting", "IN:keys-arrive-while-waiting"].iter().map(|s| s.to_string()).collect();
    out
}

pub fn replay(_ctx: &Ctx, case: &Value, st: &mut Stats) -> Result<(), String> {
    let tape: Vec<u32> = serde_json::from_value(case["tape"].clone()).map_err(|e| e.to_string())?;
    check(&tape, st)
}
