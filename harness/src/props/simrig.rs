//! Shared rig for the simulator properties: builds a `Simulator` and the reference machine
//! from one `MachineSpec`, drives both in lock step and compares complete states.

use crate::model::cpu::*;
use crate::model::isa::{self, MInstr, Src};
use crate::tape::Tape;
use lc3_ensemble::ast::Reg;
use lc3_ensemble::sim::device::{BufferedDisplay, BufferedKeyboard, Interrupt, InterruptFromFn};
use lc3_ensemble::sim::frame::{FrameType, ParameterList};
use lc3_ensemble::sim::mem::{MachineInitStrategy, Word};
use lc3_ensemble::sim::{InternalRegister, MemAccessCtx, SimErr, SimFlags, Simulator};
use std::collections::{BTreeMap, VecDeque};
use std::sync::{Arc, Mutex, RwLock};

pub const SSP_PORT: u16 = 0xFFF0;

#[derive(Clone, Debug)]
pub struct MachineSpec {
    pub real_traps: bool,
    pub ignore_priv: bool,
    pub debug_frames: bool,
    pub strict: bool,
    pub init: MachineInitStrategy,
    pub pc: u16,
    /// written through the PSR port (bits 15, 10:8, 2:0)
    pub psr: u16,
    pub regs: [u16; 8],
    pub saved_sp: u16,
    pub overlay: Vec<(u16, u16)>,
    pub kbd: Option<Vec<u8>>,
    pub kbd_ie: bool,
    pub display: bool,
    pub extra_iregs: Vec<(u16, IReg)>,
    pub sr_defs: Vec<(u16, Sig)>,
    /// registers left as the machine initialised them (uninitialised for strict mode)
    pub skip_regs: u8,
    /// source assembled and loaded with load_obj_file before the overlay is applied
    pub load_src: Option<String>,
    /// number of interrupt polls after which the harness device raises an external interrupt (stops runaway runs)
    pub fuse: u64,
}
impl Default for MachineSpec {
    fn default() -> Self {
        MachineSpec {
            real_traps: false,
            ignore_priv: false,
            debug_frames: false,
            strict: false,
            init: MachineInitStrategy::Known { value: 0 },
            pc: 0x3000,
            psr: 0x8002,
            regs: [0; 8],
            saved_sp: 0x3000,
            overlay: vec![],
            kbd: Some(vec![]),
            kbd_ie: false,
            display: true,
            extra_iregs: vec![],
            sr_defs: vec![],
            skip_regs: 0,
            load_src: None,
            fuse: u64::MAX,
        }
    }
}

pub type IntPlan = Arc<Mutex<VecDeque<Option<(u8, u8)>>>>;

pub struct Rig {
    pub sim: Simulator,
    pub kbd: Option<Arc<RwLock<VecDeque<u8>>>>,
    pub display: Option<Arc<RwLock<Vec<u8>>>>,
    pub plan: IntPlan,
    pub fuse: Arc<std::sync::atomic::AtomicU64>,
}

#[derive(Debug)]
pub struct FuseBlown;
impl std::fmt::Display for FuseBlown {
    fn fmt(&self, f: &mut std::fmt::Formatter<'_>) -> std::fmt::Result {
        f.write_str("harness fuse blown")
    }
}
impl std::error::Error for FuseBlown {}

pub fn reg(n: usize) -> Reg {
    Reg::try_from(n as u8).unwrap()
}

fn to_ireg(i: IReg) -> InternalRegister {
    match i {
        IReg::Pc => InternalRegister::PC,
        IReg::Psr => InternalRegister::PSR,
        IReg::Mcr => InternalRegister::MCR,
        IReg::SavedSp => InternalRegister::SavedSP,
    }
}

pub fn build_rig(spec: &MachineSpec) -> Rig {
    let flags = SimFlags { strict: spec.strict, use_real_traps: spec.real_traps, machine_init: spec.init, debug_frames: spec.debug_frames, ignore_privilege: spec.ignore_priv };
    let mut sim = Simulator::new(flags);
    let mut kbd = None;
    let mut display = None;
    if let Some(q) = &spec.kbd {
        // both constructors are used (a keyboard starts with interrupts disabled either way)
        let k = if q.len() % 2 == 1 { BufferedKeyboard::new(Arc::new(std::sync::RwLock::new(std::collections::VecDeque::new()))) } else { BufferedKeyboard::default() };
        k.get_buffer().write().unwrap().extend(q.iter().copied());
        kbd = Some(Arc::clone(k.get_buffer()));
        sim.device_handler.set_keyboard(k);
    }
    if spec.display {
        let d = BufferedDisplay::default();
        display = Some(Arc::clone(d.get_buffer()));
        sim.device_handler.set_display(d);
    }
    let plan: IntPlan = Arc::new(Mutex::new(VecDeque::new()));
    let p2 = Arc::clone(&plan);
    let fuse = Arc::new(std::sync::atomic::AtomicU64::new(spec.fuse));
    let f2 = Arc::clone(&fuse);
    sim.device_handler
        .add_device(
            InterruptFromFn::new(move || {
                use std::sync::atomic::Ordering::Relaxed;
                let left = f2.load(Relaxed);
                if left == 0 {
                    return Some(Interrupt::external(FuseBlown));
                }
                if left != u64::MAX {
                    f2.store(left - 1, Relaxed);
                }
                p2.lock().unwrap().pop_front().flatten().map(|(v, p)| Interrupt::vectored(v, p))
            }),
            &[],
        )
        .expect("interrupt source must attach");
    if spec.kbd_ie {
        // before any internal register can shadow the KBSR port
        sim.write_mem(KBSR, Word::new_init(0x4000), MemAccessCtx::omnipotent()).expect("kbsr write");
    }
    sim.mmap_internal(SSP_PORT, InternalRegister::SavedSP).expect("SSP port");
    for (port, ir) in &spec.extra_iregs {
        let _ = sim.mmap_internal(*port, to_ireg(*ir));
    }
    let om = MemAccessCtx::omnipotent();
    if let Some(src) = &spec.load_src {
        let ast = lc3_ensemble::parse::parse_ast(src).expect("load_src parses");
        let obj = lc3_ensemble::asm::assemble(ast).expect("load_src assembles");
        sim.load_obj_file(&obj).expect("load_src loads");
    }
    for (a, v) in &spec.overlay {
        sim.mem[*a].set(*v);
    }
    for i in 0..8 {
        if spec.skip_regs & (1 << i) == 0 {
            sim.reg_file[reg(i)].set(spec.regs[i]);
        }
    }
    sim.pc = spec.pc;
    sim.write_mem(PSR_ADDR, Word::new_init(spec.psr), om).expect("psr write");
    sim.write_mem(SSP_PORT, Word::new_init(spec.saved_sp), om).expect("ssp write");
    for (addr, sig) in &spec.sr_defs {
        let pl = match sig {
            Sig::Stack(n) => ParameterList::with_calling_convention(&vec!["p"; *n]),
            Sig::Regs(rs) => ParameterList::with_pass_by_register(&rs.iter().map(|r| ("p", reg(*r as usize))).collect::<Vec<_>>(), None),
        };
        sim.frame_stack.set_subroutine_def(*addr, pl);
    }
    Rig { sim, kbd, display, plan, fuse }
}

/// Reference machine initialised from a snapshot of the simulator's own state.
pub fn build_ref(spec: &MachineSpec, rig: &mut Rig) -> RefCpu {
    let mem: Vec<u16> = (0..=u16::MAX).map(|a| rig.sim.mem[a].get()).collect();
    let mut r = RefCpu::new(mem);
    for i in 0..8 {
        r.r[i] = rig.sim.reg_file[reg(i)].get();
    }
    r.pc = rig.sim.pc;
    r.psr = rig.sim.psr().get();
    r.saved_sp = spec.saved_sp;
    r.mcr = rig.sim.mcr().load(std::sync::atomic::Ordering::Relaxed);
    r.has_kbd = spec.kbd.is_some();
    r.kbd = spec.kbd.clone().unwrap_or_default().into();
    r.kbd_ie = spec.kbd_ie;
    r.has_display = spec.display;
    r.real_traps = spec.real_traps;
    r.ignore_priv = spec.ignore_priv;
    r.debug_frames = spec.debug_frames;
    r.iregs.insert(SSP_PORT, IReg::SavedSp);
    for (port, ir) in &spec.extra_iregs {
        if *port >= IO_START {
            r.iregs.entry(*port).or_insert(*ir);
        }
    }
    for (a, s) in &spec.sr_defs {
        r.sr_defs.insert(*a, s.clone());
    }
    r
}

pub fn classify_err(e: &SimErr) -> Option<Fault> {
    Some(match e {
        SimErr::AccessViolation => Fault::Acv,
        SimErr::PrivilegeViolation => Fault::Privilege,
        SimErr::IllegalOpcode => Fault::IllegalOpcode,
        SimErr::InvalidInstrFormat => Fault::InvalidFormat,
        _ => return None,
    })
}

/// Reads the saved stack pointer through its port (keeps the model's mirror cell in sync).
pub fn read_saved_sp(rig: &mut Rig, r: &mut RefCpu) -> u16 {
    let v = rig.sim.read_mem(SSP_PORT, MemAccessCtx::omnipotent()).map(|w| w.get()).unwrap_or(0xDEAD);
    r.mem[SSP_PORT as usize] = r.saved_sp;
    v
}

/// Compares registers, PC, PSR, saved SP, counters, frames, devices and the given addresses.
pub fn compare_state(rig: &mut Rig, r: &mut RefCpu, addrs: &mut dyn Iterator<Item = u16>, what: &str) -> Result<(), String> {
    for i in 0..8 {
        let g = rig.sim.reg_file[reg(i)].get();
        if g != r.r[i] {
            return Err(format!("{what}: R{i} = x{g:04X}, reference x{:04X}", r.r[i]));
        }
    }
    if rig.sim.pc != r.pc {
        return Err(format!("{what}: PC = x{:04X}, reference x{:04X}", rig.sim.pc, r.pc));
    }
    if rig.sim.psr().get() != r.psr {
        return Err(format!("{what}: PSR = x{:04X}, reference x{:04X}", rig.sim.psr().get(), r.psr));
    }
    {
        // the PSR's field accessors agree with its bits
        let p = rig.sim.psr();
        let got = (p.privileged(), p.priority(), p.cc(), p.is_n(), p.is_z(), p.is_p());
        let want = (r.psr & 0x8000 == 0, ((r.psr >> 8) & 7) as u8, (r.psr & 7) as u8, r.psr & 4 != 0, r.psr & 2 != 0, r.psr & 1 != 0);
        if got != want {
            return Err(format!("{what}: PSR x{:04X} reports (privileged, priority, cc, n, z, p) = {got:?}, its bits say {want:?}", r.psr));
        }
    }
    let ssp = read_saved_sp(rig, r);
    if ssp != r.saved_sp {
        return Err(format!("{what}: saved SP = x{ssp:04X}, reference x{:04X}", r.saved_sp));
    }
    if rig.sim.instructions_run != r.instructions {
        return Err(format!("{what}: instructions_run = {}, reference {}", rig.sim.instructions_run, r.instructions));
    }
    if rig.sim.frame_stack.len() != r.depth {
        return Err(format!("{what}: frame depth = {}, reference {}", rig.sim.frame_stack.len(), r.depth));
    }
    if rig.sim.frame_stack.is_empty() != (r.depth == 0) {
        return Err(format!("{what}: frame_stack.is_empty() = {} at depth {}", rig.sim.frame_stack.is_empty(), r.depth));
    }
    let mcr = rig.sim.mcr().load(std::sync::atomic::Ordering::Relaxed);
    if mcr != r.mcr {
        return Err(format!("{what}: MCR = {mcr}, reference {}", r.mcr));
    }
    if let Some(k) = &rig.kbd {
        let q: Vec<u8> = k.read().unwrap().iter().copied().collect();
        let m: Vec<u8> = r.kbd.iter().copied().collect();
        if q != m {
            return Err(format!("{what}: keyboard queue = {q:?}, reference {m:?}"));
        }
    }
    if let Some(d) = &rig.display {
        let q = d.read().unwrap().clone();
        if q != r.display {
            return Err(format!("{what}: display = {q:?}, reference {:?}", r.display));
        }
    }
    for a in addrs {
        let g = rig.sim.mem[a].get();
        if g != r.mem[a as usize] {
            return Err(format!("{what}: mem[x{a:04X}] = x{g:04X}, reference x{:04X}", r.mem[a as usize]));
        }
    }
    Ok(())
}

pub fn compare_frames(rig: &Rig, r: &RefCpu, what: &str) -> Result<(), String> {
    match rig.sim.frame_stack.frames() {
        None => {
            if r.debug_frames {
                return Err(format!("{what}: debug frames enabled but frames() is None"));
            }
        }
        Some(fs) => {
            if !r.debug_frames {
                return Err(format!("{what}: frames() is Some although debug_frames is off"));
            }
            if fs.len() != r.frames.len() {
                return Err(format!("{what}: {} frames, reference {}", fs.len(), r.frames.len()));
            }
            for (i, (f, m)) in fs.iter().zip(&r.frames).enumerate() {
                let kind = match f.frame_type {
                    FrameType::Subroutine => FrameKind::Subroutine,
                    FrameType::Trap => FrameKind::Trap,
                    FrameType::Interrupt => FrameKind::Interrupt,
                };
                let args: Vec<u16> = f.arguments.iter().map(|w| w.get()).collect();
                let fp = f.frame_ptr.map(|w| w.get());
                if f.caller_addr != m.caller || f.callee_addr != m.callee || kind != m.kind || args != m.args || fp != m.fp {
                    return Err(format!(
                        "{what}: frame {i} = (caller x{:04X}, callee x{:04X}, {kind:?}, fp {fp:?}, args {args:?}), reference (caller x{:04X}, callee x{:04X}, {:?}, fp {:?}, args {:?})",
                        f.caller_addr, f.callee_addr, m.caller, m.callee, m.kind, m.fp, m.args
                    ));
                }
            }
        }
    }
    Ok(())
}

// ---------------------------------------------------------------------------------
// StateGen: machine states with instruction windows aimed at boundary addresses

pub const BOUNDARY: &[u16] = &[0x3100, 0x3102, 0x3104, 0x0000, 0x0001, 0x00FF, 0x0100, 0x01FF, 0x0200, 0x2FFE, 0x2FFF, 0x3000, 0x3001, 0xFDFE, 0xFDFF, 0xFE00, 0xFE02, 0xFE04, 0xFE06, 0xFFF0, 0xFFFC, 0xFFFE, 0xFFFF];

pub fn boundary_or_random(t: &mut Tape) -> u16 {
    match t.weighted(&[5, 2, 2]) {
        0 => *t.choose(BOUNDARY),
        1 => 0x3000 + t.pick(0xCE00) as u16,
        _ => t.u16(),
    }
}

fn off_field(t: &mut Tape, bits: u32) -> i16 {
    let lo = -(1i64 << (bits - 1));
    let hi = (1i64 << (bits - 1)) - 1;
    match t.weighted(&[4, 1, 1, 2]) {
        0 => t.range(-4, 8) as i16,
        1 => lo as i16,
        2 => hi as i16,
        _ => t.range(lo, hi) as i16,
    }
}

/// offset that makes `base + off` hit `target` if representable
fn aim(base: u16, target: u16, bits: u32) -> Option<i16> {
    let d = target.wrapping_sub(base) as i16 as i32;
    (d >= -(1 << (bits - 1)) && d < (1 << (bits - 1))).then_some(d as i16)
}

/// One random (mostly valid) instruction word located at `at`; may also request pointer cells.
pub fn gen_word(t: &mut Tape, at: u16, regs: &[u16; 8], cells: &mut Vec<(u16, u16)>) -> u16 {
    if t.chance(1, 6) {
        // raw word: exercises decode errors
        return match t.pick(4) {
            0 => 0xD000 | (t.u16() & 0x0FFF),
            1 => 0x8000 | (1 + t.pick(0xFFF) as u16),
            2 => 0xC000 | (t.u16() & 0x0FFF),
            _ => t.u16(),
        };
    }
    let pc1 = at.wrapping_add(1);
    let r = |t: &mut Tape| t.pick(8) as u8;
    let m = match t.pick(20) {
        0 => MInstr::Add { dr: r(t), sr1: r(t), src: Src::Reg(r(t)) },
        1 => MInstr::Add { dr: r(t), sr1: r(t), src: Src::Imm(off_field(t, 5)) },
        2 => MInstr::And { dr: r(t), sr1: r(t), src: if t.chance(1, 2) { Src::Reg(r(t)) } else { Src::Imm(off_field(t, 5)) } },
        3 => MInstr::Not { dr: r(t), sr: r(t) },
        4 => MInstr::Br { cc: t.pick(8) as u8, off: off_field(t, 9) },
        5 | 6 => {
            let tgt = boundary_or_random(t);
            let off = aim(pc1, tgt, 9).unwrap_or_else(|| off_field(t, 9));
            if t.chance(1, 2) { MInstr::Ld { dr: r(t), off } } else { MInstr::St { sr: r(t), off } }
        }
        7 | 8 => {
            // indirect: pointer cell near the instruction, pointee aimed at a boundary
            let off = t.range(1, 12) as i16;
            let cell = pc1.wrapping_add(off as u16);
            cells.push((cell, boundary_or_random(t)));
            if t.chance(1, 2) { MInstr::Ldi { dr: r(t), off } } else { MInstr::Sti { sr: r(t), off } }
        }
        9 | 10 => {
            let base = r(t);
            let tgt = boundary_or_random(t);
            let off = aim(regs[base as usize], tgt, 6).unwrap_or_else(|| off_field(t, 6));
            if t.chance(1, 2) { MInstr::Ldr { dr: r(t), base, off } } else { MInstr::Str { sr: r(t), base, off } }
        }
        11 => MInstr::Lea { dr: r(t), off: off_field(t, 9) },
        12 => MInstr::Jmp { base: r(t) },
        13 => MInstr::Jsrr { base: r(t) },
        14 => MInstr::Jsr { off: if t.chance(1, 2) { t.range(1, 10) as i16 } else { off_field(t, 11) } },
        15 | 16 => MInstr::Trap { vect: match t.pick(5) { 0 => 0x25, 1 => 0x20 + t.pick(6) as u8, 2 => 0x21, 3 => t.u8(), _ => 0x22 } },
        17 | 18 => MInstr::Rti,
        _ => MInstr::Br { cc: 7, off: t.range(0, 3) as i16 },
    };
    isa::enc(&m)
}

#[derive(Clone, Debug)]
pub struct StateCase {
    pub spec: MachineSpec,
    /// per step: interrupt raised by the harness-controlled source
    pub plan: Vec<Option<(u8, u8)>>,
    pub steps: usize,
}

pub fn gen_state(t: &mut Tape, allow_strict: bool) -> StateCase {
    let mut spec = MachineSpec::default();
    spec.real_traps = t.chance(1, 2);
    spec.ignore_priv = t.chance(1, 5);
    spec.debug_frames = t.chance(1, 2);
    spec.strict = allow_strict && t.chance(1, 2);
    spec.init = if t.chance(1, 2) { MachineInitStrategy::Seeded { seed: t.raw() as u64 } } else { MachineInitStrategy::Known { value: *t.choose(&[0u16, 0xFFFF, 0x1234, 0xD000]) } };
    let user = t.chance(3, 5);
    let prio = t.pick(8) as u16;
    let cc = *t.choose(&[1u16, 2, 4]);
    spec.psr = ((user as u16) << 15) | (prio << 8) | cc;
    spec.pc = match t.weighted(&[6, 3, 1]) {
        0 => {
            if user { *t.choose(&[0x3000u16, 0x3001, 0x4000, 0xFDF0, 0xFDFD, 0xFDFE, 0xFDFF, 0x8000]) } else { *t.choose(&[0x0200u16, 0x1000, 0x2FF0, 0x3000, 0xFDFF, 0x0000]) }
        }
        1 => *t.choose(BOUNDARY),
        _ => t.u16(),
    };
    for i in 0..8 {
        spec.regs[i] = boundary_or_random(t);
    }
    // stack pointers: mostly sane
    if t.chance(4, 5) {
        let usp = *t.choose(&[0xF000u16, 0xFDFF, 0xFE00, 0x3002, 0x4000]);
        let ssp = *t.choose(&[0x3000u16, 0x2FFE, 0x2000, 0x0202, 0x0001]);
        if user {
            spec.regs[6] = usp;
            spec.saved_sp = ssp;
        } else {
            spec.regs[6] = ssp;
            spec.saved_sp = usp;
        }
    } else {
        spec.saved_sp = boundary_or_random(t);
    }
    // instruction window
    let n = 1 + t.pick(16);
    let mut cells = vec![];
    for i in 0..n {
        let at = spec.pc.wrapping_add(i as u16);
        let w = gen_word(t, at, &spec.regs, &mut cells);
        spec.overlay.push((at, w));
    }
    // pointer cells must not clobber the window start
    for (a, v) in cells {
        if a.wrapping_sub(spec.pc) >= n as u16 {
            spec.overlay.push((a, v));
        }
    }
    // sparse extra words (also jump targets of registers get an instruction)
    for _ in 0..t.pick(6) {
        let a = boundary_or_random(t);
        if a < IO_START {
            let mut dummy = vec![];
            let w = gen_word(t, a, &spec.regs, &mut dummy);
            spec.overlay.push((a, w));
        }
    }
    // a return frame on the supervisor stack so that RTI has something sensible sometimes
    if t.chance(1, 2) {
        let sp = if user { spec.saved_sp } else { spec.regs[6] };
        if sp < IO_START - 2 {
            spec.overlay.push((sp, *t.choose(&[0x3000u16, 0x3005, 0x0200, 0xFDFF, 0xFE00])));
            spec.overlay.push((sp.wrapping_add(1), *t.choose(&[0x8002u16, 0x0002, 0x8401, 0x0704, 0x8000, 0xFFFF, 0x0007])));
        }
    }
    spec.kbd = if t.chance(5, 6) { Some((0..t.pick(4)).map(|_| t.u8()).collect()) } else { None };
    spec.kbd_ie = spec.kbd.is_some() && t.chance(1, 4);
    spec.display = t.chance(5, 6);
    if t.chance(1, 6) {
        spec.extra_iregs.push((*t.choose(&[0xFE10u16, 0xFE00, 0xFE06, 0xFFFF]), *t.choose(&[IReg::Pc, IReg::SavedSp, IReg::Psr, IReg::Mcr])));
    }
    // interrupt handlers: vectors x80..x83 point at small routines
    let nh = t.pick(3);
    for k in 0..nh {
        let vec = 0x180 + k as u16;
        let handler = 0x1000 + 0x10 * k as u16;
        spec.overlay.push((vec, handler));
        spec.overlay.push((handler, isa::enc(&MInstr::Add { dr: 0, sr1: 0, src: Src::Imm(1) })));
        spec.overlay.push((handler + 1, isa::enc(&MInstr::Rti)));
    }
    if allow_strict {
        spec.skip_regs = if t.chance(1, 2) { t.u8() } else { 0 };
        if t.chance(1, 2) {
            spec.load_src = Some(".orig x3100\nBUF .blkw 4\nVAL .fill 5\n.end\n".to_string());
        }
    }
    let steps = 1 + t.pick(40);
    let mut plan = vec![];
    for _ in 0..steps {
        plan.push(if t.chance(1, 8) { Some((0x80 + t.pick(4) as u8, t.pick(8) as u8)) } else { None });
    }
    if spec.debug_frames && t.chance(1, 2) {
        spec.sr_defs.push((boundary_or_random(t), if t.chance(1, 2) { Sig::Stack(t.pick(4)) } else { Sig::Regs(vec![t.pick(8) as u8, t.pick(8) as u8]) }));
        spec.sr_defs.push((0x180, Sig::Regs(vec![6])));
    }
    StateCase { spec, plan, steps }
}

pub fn describe_state(c: &StateCase) -> serde_json::Value {
    let s = &c.spec;
    let mut ov: BTreeMap<u16, u16> = BTreeMap::new();
    for (a, v) in &s.overlay {
        ov.insert(*a, *v);
    }
    serde_json::json!({
        "flags": format!("real_traps={} ignore_privilege={} debug_frames={} strict={} init={:?}", s.real_traps, s.ignore_priv, s.debug_frames, s.strict, s.init),
        "pc": format!("x{:04X}", s.pc),
        "psr": format!("x{:04X}", s.psr),
        "regs": s.regs.iter().map(|r| format!("x{r:04X}")).collect::<Vec<_>>(),
        "saved_sp": format!("x{:04X}", s.saved_sp),
        "memory": ov.iter().map(|(a, v)| format!("x{a:04X}: x{v:04X}  {}", match isa::dec(*v) { Ok(i) => format!("{i:?}"), Err(e) => format!("<{e:?}>") })).collect::<Vec<_>>(),
        "keyboard": s.kbd, "kbd_ie": s.kbd_ie, "display": s.display,
        "extra_iregs": format!("{:?}", s.extra_iregs),
        "interrupt_plan": c.plan.iter().enumerate().filter_map(|(i, p)| p.map(|(v, pr)| format!("step {i}: vector x{v:02X} priority {pr}"))).collect::<Vec<_>>(),
        "steps": c.steps,
        "sr_defs": format!("{:?}", s.sr_defs),
    })
}

// ---------------------------------------------------------------------------------
// Stable JSON form of a state case (for committed regression replays)

pub fn case_to_json(c: &StateCase) -> serde_json::Value {
    let s = &c.spec;
    let ir = |i: &IReg| match i {
        IReg::Pc => "pc",
        IReg::Psr => "psr",
        IReg::Mcr => "mcr",
        IReg::SavedSp => "saved_sp",
    };
    serde_json::json!({
        "real_traps": s.real_traps, "ignore_priv": s.ignore_priv, "debug_frames": s.debug_frames, "strict": s.strict,
        "init": match s.init { MachineInitStrategy::Known { value } => serde_json::json!({"known": value}), MachineInitStrategy::Seeded { seed } => serde_json::json!({"seeded": seed}), MachineInitStrategy::Unseeded => serde_json::json!("unseeded") },
        "pc": s.pc, "psr": s.psr, "regs": s.regs, "saved_sp": s.saved_sp,
        "overlay": s.overlay, "kbd": s.kbd, "kbd_ie": s.kbd_ie, "display": s.display,
        "extra_iregs": s.extra_iregs.iter().map(|(p, i)| serde_json::json!([p, ir(i)])).collect::<Vec<_>>(),
        "sr_defs": s.sr_defs.iter().map(|(a, sig)| match sig { Sig::Stack(n) => serde_json::json!([a, "stack", n]), Sig::Regs(r) => serde_json::json!([a, "regs", r]) }).collect::<Vec<_>>(),
        "skip_regs": s.skip_regs, "load_src": s.load_src, "fuse": if s.fuse == u64::MAX { serde_json::Value::Null } else { serde_json::json!(s.fuse) },
        "plan": c.plan.iter().map(|p| p.map(|(v, pr)| vec![v, pr])).collect::<Vec<_>>(),
        "steps": c.steps,
    })
}

pub fn case_from_json(v: &serde_json::Value) -> Result<StateCase, String> {
    let u16f = |k: &str| -> Result<u16, String> { v[k].as_u64().map(|x| x as u16).ok_or(format!("missing {k}")) };
    let b = |k: &str| v[k].as_bool().unwrap_or(false);
    let mut spec = MachineSpec::default();
    spec.real_traps = b("real_traps");
    spec.ignore_priv = b("ignore_priv");
    spec.debug_frames = b("debug_frames");
    spec.strict = b("strict");
    spec.init = if let Some(k) = v["init"]["known"].as_u64() {
        MachineInitStrategy::Known { value: k as u16 }
    } else if let Some(s) = v["init"]["seeded"].as_u64() {
        MachineInitStrategy::Seeded { seed: s }
    } else {
        MachineInitStrategy::Known { value: 0 }
    };
    spec.pc = u16f("pc")?;
    spec.psr = u16f("psr")?;
    spec.saved_sp = u16f("saved_sp")?;
    let regs: Vec<u16> = serde_json::from_value(v["regs"].clone()).map_err(|e| e.to_string())?;
    for (i, r) in regs.iter().take(8).enumerate() {
        spec.regs[i] = *r;
    }
    spec.overlay = serde_json::from_value(v["overlay"].clone()).map_err(|e| e.to_string())?;
    spec.kbd = serde_json::from_value(v["kbd"].clone()).map_err(|e| e.to_string())?;
    spec.kbd_ie = b("kbd_ie");
    spec.display = b("display");
    for e in v["extra_iregs"].as_array().cloned().unwrap_or_default() {
        let port = e[0].as_u64().ok_or("bad ireg")? as u16;
        let i = match e[1].as_str() {
            Some("pc") => IReg::Pc,
            Some("psr") => IReg::Psr,
            Some("mcr") => IReg::Mcr,
            _ => IReg::SavedSp,
        };
        spec.extra_iregs.push((port, i));
    }
    for e in v["sr_defs"].as_array().cloned().unwrap_or_default() {
        let a = e[0].as_u64().ok_or("bad sr_def")? as u16;
        let sig = if e[1].as_str() == Some("stack") { Sig::Stack(e[2].as_u64().unwrap_or(0) as usize) } else { Sig::Regs(serde_json::from_value(e[2].clone()).map_err(|x| x.to_string())?) };
        spec.sr_defs.push((a, sig));
    }
    spec.skip_regs = v["skip_regs"].as_u64().unwrap_or(0) as u8;
    spec.load_src = v["load_src"].as_str().map(|s| s.to_string());
    spec.fuse = v["fuse"].as_u64().unwrap_or(u64::MAX);
    let plan: Vec<Option<Vec<u8>>> = serde_json::from_value(v["plan"].clone()).unwrap_or_default();
    let plan: Vec<Option<(u8, u8)>> = plan.into_iter().map(|p| p.and_then(|x| (x.len() == 2).then(|| (x[0], x[1])))).collect();
    let steps = v["steps"].as_u64().unwrap_or(plan.len() as u64) as usize;
    let mut plan = plan;
    plan.resize(steps, None);
    Ok(StateCase { spec, plan, steps })
}

// ---------------------------------------------------------------------------------
// Running ProgGen programs

use crate::gen::exec::ExecProg;

pub fn spec_for_prog(p: &ExecProg, real_traps: bool, debug_frames: bool, init: MachineInitStrategy) -> MachineSpec {
    let mut s = MachineSpec::default();
    s.real_traps = real_traps;
    s.debug_frames = debug_frames;
    s.init = init;
    s.pc = p.origin;
    s.psr = 0x8002;
    s.saved_sp = 0x3000;
    s.overlay = p.words.iter().enumerate().map(|(i, w)| (p.origin.wrapping_add(i as u16), *w)).collect();
    s.kbd = Some(p.kbd.clone());
    s.display = true;
    s
}

pub fn describe_prog(p: &ExecProg) -> serde_json::Value {
    serde_json::json!({"listing": p.listing, "keyboard_first_bytes": p.kbd.iter().take(8).collect::<Vec<_>>(), "keyboard_len": p.kbd.len(), "ending": format!("{:?}", p.ending)})
}
