//! One module per property.
use crate::driver::{Ctx, Outcome, Stats};
use serde_json::Value;

pub struct PropDef {
    pub id: &'static str,
    pub run: fn(&Ctx) -> Outcome,
    /// Replays one stored case (the "case" object of a replay file). Ok = property holds on it.
    pub replay: fn(&Ctx, &Value, &mut Stats) -> Result<(), String>,
}

pub mod c01;
pub mod c02;
pub mod c03;
pub mod c04;
pub mod c05;
pub mod c06;
pub mod c07;
pub mod c08;
pub mod c09;
pub mod c10;
pub mod c11;
pub mod c12;
pub mod c13;
pub mod c14;
pub mod c15;
pub mod c16;
pub mod c17;
pub mod c19;
pub mod c20;
pub mod c21;
pub mod c22;
pub mod c23;
pub mod c24;
pub mod c25;
pub mod c26;
pub mod c27;
pub mod c28;
pub mod c29;
pub mod c30;
pub mod c31;
pub mod c32;
pub mod c33;
pub mod c34;
pub mod c35;
pub mod c36;
pub mod corpus;
pub mod objgen;
pub mod recdev;
pub mod simrig;

pub fn all() -> Vec<PropDef> {
    vec![
        PropDef { id: "C01", run: c01::run, replay: c01::replay },
        PropDef { id: "C02", run: c02::run, replay: c02::replay },
        PropDef { id: "C03", run: c03::run, replay: c03::replay },
        PropDef { id: "C04", run: c04::run, replay: c04::replay },
        PropDef { id: "C05", run: c05::run, replay: c05::replay },
        PropDef { id: "C06", run: c06::run, replay: c06::replay },
        PropDef { id: "C07", run: c07::run, replay: c07::replay },
        PropDef { id: "C08", run: c08::run, replay: c08::replay },
        PropDef { id: "C09", run: c09::run, replay: c09::replay },
        PropDef { id: "C10", run: c10::run, replay: c10::replay },
        PropDef { id: "C11", run: c11::run, replay: c11::replay },
        PropDef { id: "C12", run: c12::run, replay: c12::replay },
        PropDef { id: "C13", run: c13::run, replay: c13::replay },
        PropDef { id: "C14", run: c14::run, replay: c14::replay },
        PropDef { id: "C15", run: c15::run, replay: c15::replay },
        PropDef { id: "C16", run: c16::run, replay: c16::replay },
        PropDef { id: "C17", run: c17::run17, replay: c17::replay17 },
        PropDef { id: "C18", run: c17::run18, replay: c17::replay18 },
        PropDef { id: "C19", run: c19::run, replay: c19::replay },
        PropDef { id: "C20", run: c20::run, replay: c20::replay },
        PropDef { id: "C21", run: c21::run, replay: c21::replay },
        PropDef { id: "C22", run: c22::run, replay: c22::replay },
        PropDef { id: "C23", run: c23::run, replay: c23::replay },
        PropDef { id: "C24", run: c24::run, replay: c24::replay },
        PropDef { id: "C25", run: c25::run, replay: c25::replay },
        PropDef { id: "C26", run: c26::run, replay: c26::replay },
        PropDef { id: "C27", run: c27::run, replay: c27::replay },
        PropDef { id: "C28", run: c28::run, replay: c28::replay },
        PropDef { id: "C29", run: c29::run, replay: c29::replay },
        PropDef { id: "C30", run: c30::run, replay: c30::replay },
        PropDef { id: "C31", run: c31::run, replay: c31::replay },
        PropDef { id: "C32", run: c32::run, replay: c32::replay },
        PropDef { id: "C33", run: c33::run, replay: c33::replay },
        PropDef { id: "C34", run: c34::run, replay: c34::replay },
        PropDef { id: "C35", run: c35::run, replay: c35::replay },
        PropDef { id: "C36", run: c36::run, replay: c36::replay },
    ]
}
