//! One module per property.
use crate::driver::{Ctx, Outcome, Stats};
use serde_json::Value;

pub struct PropDef {
    pub id: &'static str,
    pub run: fn(&Ctx) -> Outcome,
    /// Replays one stored case (the "case" object of a replay file). Ok = property holds on it.
    pub replay: fn(&Ctx, &Value, &mut Stats) -> Result<(), String>,
}

pub mod c35;

pub fn all() -> Vec<PropDef> {
    vec![
        PropDef { id: "C35", run: c35::run, replay: c35::replay },
    ]
}
