//! C28 — Access observer records exactly the memory the program touched.
use crate::driver::*;
use crate::model::cpu::*;
use crate::props::c08::lockstep;
use crate::props::simrig::*;
use crate::tape::Tape;
use lc3_ensemble::sim::mem::Word;
use lc3_ensemble::sim::MemAccessCtx;
use serde_json::Value;
use std::collections::BTreeSet;

pub fn check(tape: &[u32], st: &mut Stats) -> Result<(), String> {
    let mut t = Tape::new(tape);
    let c = gen_state(&mut t, false);
    let mut rw_steps = 0u32;
    let mut stats_rw = (0u64, 0u64, 0u64);
    // Half of the cases never empty the observer themselves (they only use get_mem_accesses), so that
    // the clearing done by step_in itself is what keeps one step's records out of the next.
    let keep = tape.len() % 2 == 1;
    let mut seen: BTreeSet<u16> = BTreeSet::new();
    let (mut all_r, mut all_w, mut all_c): (BTreeSet<u16>, BTreeSet<u16>, BTreeSet<u16>) = Default::default();
    let mut executed = 0usize;
    let mut mcr_seen = false;
    let mcr_ports: Vec<u16> = std::iter::once(MCR_ADDR).chain(c.spec.extra_iregs.iter().filter(|(_, i)| matches!(i, IReg::Mcr)).map(|(p, _)| *p)).collect();
    let res = lockstep(&c, &mut Stats::default(), &mut |rig, r, _out| {
        executed += 1;
        // run_while sets the MCR's run bit, step_in does not: a case that looks at the MCR is not the same execution in both modes
        mcr_seen |= r.info.io_touched.iter().chain(r.info.reads.iter()).chain(r.info.writes.iter()).any(|a| mcr_ports.contains(a));
        for a in r.info.reads.iter().chain(r.info.writes.iter()) {
            seen.insert(*a);
            seen.insert(a.wrapping_add(1));
            seen.insert(a.wrapping_sub(1));
        }
        all_r.extend(r.info.reads.iter().copied().filter(|a| *a < IO_START));
        all_w.extend(r.info.writes.iter().copied().filter(|a| *a < IO_START));
        all_c.extend(r.info.changed.iter().copied().filter(|a| *a < IO_START));
        let acc: Vec<(u16, lc3_ensemble::sim::observer::AccessSet)> = if keep {
            seen.iter().map(|a| (*a, rig.sim.observer.get_mem_accesses(*a))).filter(|(_, s)| s.accessed()).collect()
        } else {
            rig.sim.observer.take_mem_accesses().collect()
        };
        let mut reads = BTreeSet::new();
        let mut writes = BTreeSet::new();
        let mut modified = BTreeSet::new();
        for (a, s) in &acc {
            if s.modified() && !s.written() {
                return Err(format!("observer marks x{a:04X} as modified but not written"));
            }
            if *a >= IO_START {
                continue;
            }
            if s.read() {
                reads.insert(*a);
            }
            if s.written() {
                writes.insert(*a);
            }
            if s.modified() {
                modified.insert(*a);
            }
        }
        let mr: BTreeSet<u16> = r.info.reads.iter().copied().filter(|a| *a < IO_START).collect();
        let mw: BTreeSet<u16> = r.info.writes.iter().copied().filter(|a| *a < IO_START).collect();
        let mc: BTreeSet<u16> = r.info.changed.iter().copied().filter(|a| *a < IO_START).collect();
        let what = match (&r.info.took_interrupt, &r.info.instr) {
            (Some(i), _) => format!("interrupt {i:?}"),
            (_, Some(i)) => format!("{i:?} at x{:04X}", r.fault_addr),
            _ => format!("fetch at x{:04X}", r.fault_addr),
        };
        if reads != mr {
            return Err(format!("{what}: observer READ set {reads:04X?}, the step read {mr:04X?}"));
        }
        if writes != mw {
            return Err(format!("{what}: observer WRITTEN set {writes:04X?}, the step wrote {mw:04X?}"));
        }
        // every written address whose value changed is modified; modified only if written
        if !mc.is_subset(&modified) {
            return Err(format!("{what}: addresses {:04X?} changed value but are not marked modified", mc.difference(&modified).collect::<Vec<_>>()));
        }
        if !modified.is_subset(&writes) {
            return Err(format!("{what}: modified {modified:04X?} is not a subset of written {writes:04X?}"));
        }
        if !mr.is_empty() && !mw.is_empty() {
            rw_steps += 1;
        }
        stats_rw.0 += mr.len() as u64;
        stats_rw.1 += mw.len() as u64;
        stats_rw.2 += mc.len() as u64;
        // host accesses through untracked contexts leave no trace
        let om = MemAccessCtx::omnipotent();
        let probe = if r.pc < IO_START { r.pc } else { 0x3000 };
        let before = rig.sim.mem[probe];
        let _ = rig.sim.read_mem(probe, om);
        if probe < IO_START {
            let _ = rig.sim.write_mem(probe, before, om);
        }
        let _ = rig.sim.read_mem(0x3000, MemAccessCtx { track_access: false, ..rig.sim.default_mem_ctx() });
        let _: Word = before;
        if keep {
            let after: Vec<(u16, lc3_ensemble::sim::observer::AccessSet)> = seen.iter().chain([probe, 0x3000].iter()).map(|a| (*a, rig.sim.observer.get_mem_accesses(*a))).filter(|(a, s)| s.accessed() && (*a < IO_START || !acc.iter().any(|(b, _)| b == a))).collect();
            let mut exp: Vec<(u16, lc3_ensemble::sim::observer::AccessSet)> = acc.iter().filter(|(a, _)| *a < IO_START).cloned().collect();
            let mut after = after;
            after.sort_by_key(|x| x.0);
            after.dedup_by_key(|x| x.0);
            exp.sort_by_key(|x| x.0);
            if after.iter().map(|(a, s)| (*a, s.read(), s.written(), s.modified())).ne(exp.iter().map(|(a, s)| (*a, s.read(), s.written(), s.modified()))) {
                return Err("a host access with track_access=false was recorded by the observer".into());
            }
        } else if rig.sim.observer.take_mem_accesses().next().is_some() {
            return Err("a host access with track_access=false was recorded by the observer".into());
        }
        Ok(())
    });
    match res {
        Ok(_) => {}
        Err(e) if e.starts_with("HARNESS") => return Err(e),
        Err(e) if e.contains("observer") || e.contains("modified") || e.contains("host access") => return Err(e),
        // disagreements about machine state are C08's business
        Err(_) => {
            st.class("state-disagreement-left-to-C08");
            return Ok(());
        }
    }
    // the same case as ONE run: the observer must hold the union of the steps' accesses
    if executed > 1 && mcr_seen {
        st.class("run-level-skipped:case-touches-the-MCR");
    } else if executed > 1 {
        let mut rig2 = build_rig(&c.spec);
        {
            let mut q = rig2.plan.lock().unwrap();
            for i in 0..executed {
                q.push_back(c.plan[i]);
            }
        }
        // (run_with_limit counts instructions, not steps: interrupt and exception entries are steps that are not counted)
        let mut n = 0usize;
        let _ = rig2.sim.run_while(|_| {
            n += 1;
            n <= executed
        });
        rig2.plan.lock().unwrap().clear();
        let (mut reads, mut writes, mut modified): (BTreeSet<u16>, BTreeSet<u16>, BTreeSet<u16>) = Default::default();
        for (a, s) in rig2.sim.observer.take_mem_accesses() {
            if s.modified() && !s.written() {
                return Err(format!("after a run of {executed} steps the observer marks x{a:04X} as modified but not written"));
            }
            if a >= IO_START {
                continue;
            }
            if s.read() {
                reads.insert(a);
            }
            if s.written() {
                writes.insert(a);
            }
            if s.modified() {
                modified.insert(a);
            }
        }
        if reads != all_r {
            return Err(format!("after a run of {executed} steps the observer READ set differs from the union of the steps' reads: only in observer {:04X?}, only in model {:04X?}", reads.difference(&all_r).collect::<Vec<_>>(), all_r.difference(&reads).collect::<Vec<_>>()));
        }
        if writes != all_w {
            return Err(format!("after a run of {executed} steps the observer WRITTEN set differs from the union of the steps' writes: only in observer {:04X?}, only in model {:04X?}", writes.difference(&all_w).collect::<Vec<_>>(), all_w.difference(&writes).collect::<Vec<_>>()));
        }
        if !all_c.is_subset(&modified) {
            return Err(format!("after a run of {executed} steps addresses {:04X?} changed value but are not marked modified by the observer", all_c.difference(&modified).collect::<Vec<_>>()));
        }
        st.class("run-level-union-compared");
    }
    st.class(if keep { "mode:observer-never-emptied-by-harness" } else { "mode:take-after-each-step" });
    st.class_n("model-reads", stats_rw.0);
    st.class_n("model-writes", stats_rw.1);
    st.class_n("model-changed-writes", stats_rw.2);
    if rw_steps > 0 {
        st.nontrivial(tape);
        st.class("has-read-write-step");
        if st.want_sample() {
            st.sample(describe_state(&c));
        }
    }
    Ok(())
}

pub fn describe(tape: &[u32]) -> Value {
    let mut t = Tape::new(tape);
    describe_state(&gen_state(&mut t, false))
}

pub fn run(ctx: &Ctx) -> Outcome {
    let mut out = Outcome::new(
        "the machine states of C08 (non-strict) stepped in lock step; after every step the observer's READ and WRITTEN sets restricted to non-I/O addresses must equal the reference machine's read/write sets \
         (fetch, data, indirect pointer, vector entry, stack push/pop), every written address whose value changed must be MODIFIED, MODIFIED must be a subset of WRITTEN on all addresses (in half of the cases the harness never empties the observer itself, so that records of an earlier step would show), the same case executed as one run_while call of as many steps must leave the union of the steps' sets, and host accesses with track_access=false must leave no trace; \
         non-trivial = the case contains a step that both reads and writes memory; distinct by tape",
    );
    let cfg = TapeCfg::new(ctx, 6000, 300_000, 400);
    out.shards = cfg.shards;
    out.absorb(tape_search(ctx, "main", &cfg, check, describe));
    out.essential = vec!["has-read-write-step".into(), "run-level-union-compared".into(), "mode:observer-never-emptied-by-harness".into(), "mode:take-after-each-step".into(), "model-reads".into(), "model-writes".into(), "model-changed-writes".into()];
    out
}

pub fn replay(_ctx: &Ctx, case: &Value, st: &mut Stats) -> Result<(), String> {
    let tape: Vec<u32> = serde_json::from_value(case["tape"].clone()).map_err(|e| e.to_string())?;
    check(&tape, st)
}
