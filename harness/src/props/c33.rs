//! C33 — Keyboard and display deliver bytes exactly once under lock contention.
//!
//! The only contention primitive in the devices is `try_write` on the buffer locks; a guard held
//! by the checking thread itself makes it fail deterministically, so the harness owns the
//! schedule: it decides during which steps the keyboard / display buffer is locked.
use crate::driver::*;
use crate::model::cpu::{DDR, KBDR};
use crate::model::isa::{self, MInstr, Src};
use crate::props::simrig::*;
use crate::tape::Tape;
use lc3_ensemble::sim::mem::MachineInitStrategy;
use serde_json::{json, Value};
use std::sync::atomic::Ordering::Relaxed;

pub const SIG_DATA_HOLD: &str = "hold-on-data-access-after-ready-poll";

#[derive(Clone, Debug)]
pub struct Case {
    pub input: Vec<u8>,
    /// 0 = GETC/OUT echo loop, 1 = IN loop, 2 = PUTS of a string, 3 = own polling loop in user... (needs ignore_privilege)
    pub kind: u8,
    pub real: bool,
    /// (first step, number of steps, lock: 0 keyboard, 1 display, 2 both)
    pub holds: Vec<(usize, usize, u8)>,
    /// holds placed relative to the program's own polling: (polled status register: 0 KBSR, 1 DSR; k-th poll of it (from 1);
    /// steps after that poll; number of steps; lock: 0 keyboard, 1 display, 2 both)
    pub trig: Vec<(u8, usize, usize, usize, u8)>,
}

fn program(c: &Case) -> Vec<u16> {
    let n = c.input.len() as i16;
    let mut w = vec![];
    let e = |m: MInstr| isa::enc(&m);
    match c.kind {
        0 | 1 => {
            // R1 = n; loop: GETC|IN; (OUT); R1--; BRp loop; HALT
            w.push(e(MInstr::And { dr: 1, sr1: 1, src: Src::Imm(0) }));
            w.push(e(MInstr::Add { dr: 1, sr1: 1, src: Src::Imm(n) }));
            let top = w.len() as i16;
            if c.kind == 0 {
                w.push(0xF020);
                w.push(0xF021);
            } else {
                w.push(0xF023);
            }
            w.push(e(MInstr::Add { dr: 1, sr1: 1, src: Src::Imm(-1) }));
            let here = w.len() as i16;
            w.push(e(MInstr::Br { cc: 1, off: top - (here + 1) }));
            w.push(0xF025);
        }
        _ => {
            // LEA R0, STR; PUTS; HALT; STR: bytes, 0
            w.push(e(MInstr::Lea { dr: 0, off: 2 }));
            w.push(0xF022);
            w.push(0xF025);
            for b in &c.input {
                w.push((*b as u16).max(1));
            }
            w.push(0);
        }
    }
    w
}

fn expected_output(c: &Case) -> Vec<u8> {
    match c.kind {
        0 => c.input.clone(),
        1 => c.input.iter().flat_map(|b| b"Input character: ".iter().copied().chain([*b])).collect(),
        _ => c.input.iter().map(|b| (*b).max(1)).collect(),
    }
}

/// Is the instruction about to execute a data access to KBDR / DDR (the access that follows a ready poll)?
fn at_data_access(rig: &Rig) -> Option<u8> {
    let pc = rig.sim.pc;
    let w = rig.sim.mem[pc].get();
    match isa::dec(w).ok()? {
        MInstr::Ldi { off, .. } => {
            let cell = pc.wrapping_add(1).wrapping_add(off as u16);
            (rig.sim.mem[cell].get() == KBDR).then_some(0)
        }
        MInstr::Sti { off, .. } => {
            let cell = pc.wrapping_add(1).wrapping_add(off as u16);
            (rig.sim.mem[cell].get() == DDR).then_some(1)
        }
        _ => None,
    }
}

/// Is the instruction about to execute a status poll of KBSR (0) / DSR (1)?
fn at_status_poll(rig: &Rig) -> Option<usize> {
    let pc = rig.sim.pc;
    let w = rig.sim.mem[pc].get();
    match isa::dec(w).ok()? {
        MInstr::Ldi { off, .. } => {
            let cell = pc.wrapping_add(1).wrapping_add(off as u16);
            match rig.sim.mem[cell].get() {
                crate::model::cpu::KBSR => Some(0),
                crate::model::cpu::DSR => Some(1),
                _ => None,
            }
        }
        _ => None,
    }
}

/// Runs the program under the lock schedule. Returns (output, consumed-all, excluded holds, overlapped).
fn run_case(c: &Case, exclude_known: bool, st: &mut Stats) -> Result<Option<(Vec<u8>, Vec<u8>, bool)>, String> {
    let mut spec = MachineSpec::default();
    spec.real_traps = c.real;
    spec.init = MachineInitStrategy::Known { value: 0 };
    spec.overlay = program(c).iter().enumerate().map(|(i, w)| (0x3000 + i as u16, *w)).collect();
    spec.kbd = Some(if c.kind == 2 { vec![] } else { c.input.clone() });
    let mut rig = build_rig(&spec);
    rig.sim.mcr().store(true, Relaxed);
    let kb = rig.kbd.clone().unwrap();
    let ds = rig.display.clone().unwrap();
    let mut overlapped = false;
    // was the device's lock held while its status register was polled last?  The known finding is a lock that is
    // free at the ready poll and taken just before the data access; a lock that was already held at the poll makes
    // a correct device answer "not ready", so holding it through the data access is a legitimate schedule.
    // The finding is also tied to the window the OS leaves between the ready poll and the data access (GETC: 2
    // instructions, PUTC: 4): a data access whose last poll is older than that is not the listed finding.
    let mut held_at_last_poll = [false, false];
    let mut since_poll = [usize::MAX, usize::MAX];
    const WINDOW: usize = 4;
    let mut polls = [0usize, 0usize];
    let mut dyn_holds: Vec<(usize, usize, u8)> = vec![];
    for step in 0..60_000usize {
        let mut lock_k = false;
        let mut lock_d = false;
        if !c.trig.is_empty() {
            if let Some(d) = at_status_poll(&rig) {
                polls[d] += 1;
                for (dev, k, delay, n, which) in &c.trig {
                    if *dev as usize == d && *k == polls[d] {
                        dyn_holds.push((step + delay, *n, *which));
                    }
                }
            }
        }
        for (s, n, which) in c.holds.iter().chain(dyn_holds.iter()) {
            if step >= *s && step < s + n {
                lock_k |= *which == 0 || *which == 2;
                lock_d |= *which == 1 || *which == 2;
            }
        }
        if exclude_known {
            match at_data_access(&rig) {
                Some(0) if lock_k && !held_at_last_poll[0] && since_poll[0] <= WINDOW => {
                    lock_k = false;
                    st.excluded_known += 1;
                }
                Some(1) if lock_d && !held_at_last_poll[1] && since_poll[1] <= WINDOW => {
                    lock_d = false;
                    st.excluded_known += 1;
                }
                Some(0) if lock_k => st.class("hold-from-poll-through-data-access"),
                Some(1) if lock_d => st.class("hold-from-poll-through-data-access"),
                _ => {}
            }
        }
        for d in 0..2 {
            since_poll[d] = since_poll[d].saturating_add(1);
        }
        match at_status_poll(&rig) {
            Some(0) => {
                held_at_last_poll[0] = lock_k;
                since_poll[0] = 0;
            }
            Some(1) => {
                held_at_last_poll[1] = lock_d;
                since_poll[1] = 0;
            }
            _ => {}
        }
        let io_step = {
            let w = rig.sim.mem[rig.sim.pc].get();
            matches!(isa::dec(w), Ok(MInstr::Ldi { .. }) | Ok(MInstr::Sti { .. }))
        };
        if (lock_k || lock_d) && io_step {
            overlapped = true;
        }
        let (pc0, n0) = (rig.sim.pc, rig.sim.instructions_run);
        let r = {
            let _gk = lock_k.then(|| kb.read().unwrap());
            let _gd = lock_d.then(|| ds.read().unwrap());
            rig.sim.step_in()
        };
        if let Err(e) = r {
            return Err(format!("HARNESS: echo program failed: {e:?}"));
        }
        let done = if c.real { !rig.sim.mcr().load(Relaxed) } else { rig.sim.mem[pc0].get() == 0xF025 && rig.sim.pc == pc0 && rig.sim.instructions_run == n0 };
        if done {
            let out = ds.read().unwrap().clone();
            let left: Vec<u8> = kb.read().unwrap().iter().copied().collect();
            return Ok(Some((out, left, overlapped)));
        }
    }
    Ok(None)
}

fn judge(c: &Case, r: Option<(Vec<u8>, Vec<u8>, bool)>, st: &mut Stats) -> Result<bool, String> {
    let Some((out, left, overlapped)) = r else {
        st.inconclusive += 1;
        return Ok(false);
    };
    let want = expected_output(c);
    if out != want {
        return Err(format!("with lock holds {:?} (poll-relative: {:?}) the display received {out:?}; every byte must appear exactly once and in order: {want:?}", c.holds, c.trig));
    }
    if !left.is_empty() {
        return Err(format!("with lock holds {:?} (poll-relative: {:?}) the program finished but {left:?} is still queued (a byte was not delivered)", c.holds, c.trig));
    }
    Ok(overlapped)
}

pub fn decode(tape: &[u32]) -> Case {
    let mut t = Tape::new(tape);
    let kind = t.pick(3) as u8;
    let n = 1 + t.pick(12);
    let input: Vec<u8> = (0..n).map(|_| 1 + t.pick(255) as u8).collect();
    let nh = 1 + t.pick(6);
    let holds = (0..nh).map(|_| (t.pick(40 * n), 1 + t.weighted(&[6, 3, 2, 1, 1]), t.pick(3) as u8)).collect();
    let real = t.chance(1, 3);
    // (read last: older tapes decode to the same absolute holds) 0-3 holds placed relative to the k-th poll of KBSR/DSR,
    // so that staggered keyboard/display patterns around the polling loops are reached however long the program
    // has been running (IN prints a 17-byte prompt before it looks at the keyboard)
    let nt = t.pick(4);
    let trig = (0..nt)
        .map(|_| {
            let dev = t.pick(2) as u8;
            let kmax = if t.chance(1, 2) { 4 } else { 24 * n };
            (dev, 1 + t.pick(kmax), t.pick(5), 1 + t.weighted(&[5, 3, 2, 2, 1, 1, 1]), t.pick(3) as u8)
        })
        .collect();
    Case { input, kind, real, holds, trig }
}

pub fn check(tape: &[u32], st: &mut Stats) -> Result<(), String> {
    let c = decode(tape);
    let excl = known("C33", SIG_DATA_HOLD);
    let r = run_case(&c, excl, st)?;
    let overlapped = judge(&c, r, st)?;
    st.class(&format!("kind:{}", ["echo", "in", "puts"][c.kind as usize]));
    if !c.trig.is_empty() {
        st.class("poll-relative-holds");
        if c.trig.iter().any(|t| t.4 != 1) && c.trig.iter().any(|t| t.4 != 0) && c.trig.len() >= 2 {
            st.class(&format!("poll-relative-holds-on-both-devices:{}", ["echo", "in", "puts"][c.kind as usize]));
        }
    }
    if overlapped {
        st.nontrivial(&format!("{c:?}"));
        st.class("hold-overlaps-io-access");
        if st.want_sample() {
            st.sample(json!(format!("{c:?}")));
        }
    }
    Ok(())
}

pub fn describe(tape: &[u32]) -> Value {
    json!(format!("{:?}", decode(tape)))
}

pub fn run(ctx: &Ctx) -> Outcome {
    let mut out = Outcome::new(
        "echo programs (GETC/OUT loop, IN loop, PUTS) on the real OS under lock schedules owned by the harness (the checking thread holds a guard on the keyboard and/or display buffer during chosen steps, which makes the devices' try_write fail deterministically); \
         exhaustive: every single-step hold and every pair of single-step holds x {keyboard, display, both} over the steps of 1-3 byte echo programs (quick: pairs for 1-2 bytes); random: 1-6 holds of 1-5 steps at absolute steps plus 0-3 holds of 1-7 steps placed 0-4 steps after the k-th poll of KBSR or DSR (staggered keyboard/display patterns around the polling loops, also late in long programs) on 1-12 byte inputs; \
         oracle: display == the bytes in order exactly once (plus the IN prompt), keyboard queue empty at the end; an evaluation is one schedule; non-trivial = a hold overlaps an LDI/STI step of the OS polling code; distinct by schedule; \
         holds that cover the KBDR read / DDR write itself are excluded while the known finding is listed",
    );
    let excl = known("C33", SIG_DATA_HOLD);
    // exhaustive part
    let max_in = ctx.tier.pick(2usize, 3);
    let mut jobs: Vec<Case> = vec![];
    for nbytes in 1..=max_in {
        let input: Vec<u8> = (0..nbytes).map(|i| b'a' + i as u8).collect();
        let base = Case { input: input.clone(), kind: 0, real: false, holds: vec![], trig: vec![] };
        // number of steps of the undisturbed run
        let mut tmp = Stats::default();
        let steps = {
            let mut n = 0;
            let spec_steps = run_case(&Case { holds: vec![(usize::MAX / 2, 1, 0)], ..base.clone() }, excl, &mut tmp);
            if let Ok(Some(_)) = spec_steps {
                // count steps by running again with a counter schedule: approximate with an upper bound
                n = 40 * nbytes + 20;
            }
            n
        };
        for s in 0..steps {
            for which in 0..3u8 {
                jobs.push(Case { holds: vec![(s, 1, which)], ..base.clone() });
            }
        }
        if nbytes <= ctx.tier.pick(2, 3) {
            for s1 in 0..steps {
                for s2 in s1..steps {
                    for which in 0..3u8 {
                        jobs.push(Case { holds: vec![(s1, 1, which), (s2, 1, ((which as usize + s1 + s2) % 3) as u8)], ..base.clone() });
                    }
                }
            }
        }
    }
    out.extra.insert("exhaustive_schedules".into(), json!(jobs.len()));
    let jr = &jobs;
    out.absorb(par_enumerate(jobs.len() as u64, 16, |i, st| {
        let c = &jr[i as usize];
        let r = run_case(c, excl, st).map_err(|m| Failure { case: json!({"case": format!("{c:?}")}), message: m, description: json!(format!("{c:?}")) })?;
        match judge(c, r, st) {
            Ok(ov) => {
                if ov {
                    st.nontrivial(&format!("{c:?}"));
                    st.class("hold-overlaps-io-access");
                }
                st.class("exhaustive-schedule");
                Ok(())
            }
            Err(m) => Err(Failure { case: json!({"input": c.input, "kind": c.kind, "real": c.real, "holds": c.holds, "trig": c.trig}), message: m, description: json!(format!("{c:?}")) }),
        }
    }));
    if !out.failed() {
        let cfg = TapeCfg::new(ctx, 3000, 200_000, 64);
        out.shards = cfg.shards;
        out.absorb(tape_search(ctx, "random", &cfg, check, describe));
    }
    out.exhaustive = false;
    out.essential = ["exhaustive-schedule", "hold-overlaps-io-access", "kind:echo", "kind:in", "kind:puts", "poll-relative-holds", "poll-relative-holds-on-both-devices:in", "poll-relative-holds-on-both-devices:echo"].iter().map(|s| s.to_string()).collect();
    out.assumptions.push("real OS-thread interleavings inside a single try_write are not explored; a try_* call can only succeed or fail, which is exactly what the schedule controls".into());
    if excl {
        out.assumptions.push("known finding C33/hold-on-data-access-after-ready-poll: holds covering the KBDR read / DDR write step are removed from every schedule (counted in excluded_known)".into());
    }
    out
}

pub fn replay(_ctx: &Ctx, case: &Value, st: &mut Stats) -> Result<(), String> {
    if case.get("holds").is_some() {
        let c = Case {
            input: serde_json::from_value(case["input"].clone()).map_err(|e| e.to_string())?,
            kind: case["kind"].as_u64().unwrap_or(0) as u8,
            real: case["real"].as_bool().unwrap_or(false),
            holds: serde_json::from_value(case["holds"].clone()).map_err(|e| e.to_string())?,
            trig: case.get("trig").map(|v| serde_json::from_value(v.clone())).transpose().map_err(|e| e.to_string())?.unwrap_or_default(),
        };
        // a stored case is replayed as is (known-finding witnesses must show the defect)
        let r = run_case(&c, false, st)?;
        return judge(&c, r, st).map(|_| ());
    }
    let tape: Vec<u32> = serde_json::from_value(case["tape"].clone()).map_err(|e| e.to_string())?;
    check(&tape, st)
}
