//! C34 — Timer interrupts follow the configured interval.
use crate::driver::*;
use crate::tape::Tape;
use lc3_ensemble::sim::device::{ExternalDevice, Interrupt, TimerDevice};
use lc3_ensemble::sim::mem::MachineInitStrategy;
use lc3_ensemble::sim::{SimFlags, Simulator};
use serde_json::{json, Value};
use std::sync::{Arc, Mutex};

#[derive(Clone, Debug)]
pub enum Ev {
    Poll(u32),
    Disable,
    Enable,
    ResetRemaining,
    IoReset,
    /// new range lo..=hi (set_exact when lo == hi and the flag is set); always followed by a reset event
    SetRange(u32, u32, bool),
}
#[derive(Clone, Debug)]
pub struct Case {
    pub seed: u64,
    pub lo: u32,
    pub hi: u32,
    pub exclusive_end: bool,
    pub exact: bool,
    pub events: Vec<Ev>,
    pub in_sim: bool,
}

pub fn decode(tape: &[u32]) -> Case {
    let mut t = Tape::new(tape);
    let exact = t.chance(1, 3);
    let lo = if t.chance(1, 8) { 1 + t.pick(10_000) as u32 } else { 1 + t.pick(50) as u32 };
    let hi = if exact { lo } else { lo + t.pick(30) as u32 };
    let exclusive_end = !exact && hi > lo && t.chance(1, 3);
    let n = 1 + t.pick(8);
    let mut events = vec![Ev::Enable];
    for _ in 0..n {
        let cur_hi = events.iter().rev().find_map(|e| if let Ev::SetRange(_, h, _) = e { Some(*h) } else { None }).unwrap_or(hi);
        let choice = t.weighted(&[8, 1, 1, 1, 2]);
        if choice == 4 {
            // the range changes (often to a smaller one) and the countdown is restarted, possibly while the timer is disabled
            let nlo = 1 + t.pick(20) as u32;
            let nhi = if t.chance(1, 3) { nlo } else { nlo + t.pick(10) as u32 };
            let while_disabled = t.chance(1, 2);
            if while_disabled {
                events.push(Ev::Disable);
            }
            events.push(Ev::SetRange(nlo, nhi, t.chance(1, 2)));
            events.push(if t.chance(1, 2) { Ev::IoReset } else { Ev::ResetRemaining });
            if while_disabled {
                events.push(Ev::Poll(t.pick(50) as u32));
                events.push(Ev::Enable);
            }
            events.push(Ev::Poll(nhi * (1 + t.pick(4) as u32) + t.pick(20) as u32));
            continue;
        }
        events.push(match choice {
            0 => Ev::Poll((cur_hi * (1 + t.pick(6) as u32) + t.pick(40) as u32).min(6000)),
            1 => Ev::Disable,
            2 => Ev::ResetRemaining,
            _ => Ev::IoReset,
        });
        if matches!(events.last(), Some(Ev::Disable)) {
            events.push(Ev::Poll(t.pick(200) as u32));
            events.push(Ev::Enable);
        }
    }
    let cur_hi = events.iter().rev().find_map(|e| if let Ev::SetRange(_, h, _) = e { Some(*h) } else { None }).unwrap_or(hi);
    events.push(Ev::Poll(cur_hi * 4 + 10));
    Case { seed: t.raw() as u64, lo, hi, exclusive_end, exact, events, in_sim: t.chance(1, 4) }
}

fn make(c: &Case) -> TimerDevice {
    let mut tm = if c.exclusive_end { TimerDevice::new(Some(c.seed), c.lo..c.hi + 1, 0x90, 3) } else { TimerDevice::new(Some(c.seed), c.lo..=c.hi, 0x90, 3) };
    if c.exact && c.seed % 2 == 0 {
        tm.set_exact(c.lo);
        tm.reset_remaining();
    }
    tm
}

/// Polls the timer directly; returns the fire pattern per enabled poll, segment-wise.
fn drive(c: &Case, tm: &mut TimerDevice) -> Result<(Vec<bool>, u64), String> {
    let (mut lo, mut hi) = (c.lo as u64, c.hi as u64);
    let mut pattern = vec![];
    let mut since_fire: Option<u64> = None; // polls strictly after the last fire
    let mut since_start: u64 = 0; // polls since enable / reset (no fire yet)
    let mut fires = 0u64;
    for ev in &c.events {
        match ev {
            Ev::Enable => {
                tm.enabled = true;
            }
            Ev::Disable => {
                tm.enabled = false;
            }
            Ev::ResetRemaining => {
                tm.reset_remaining();
                since_fire = None;
                since_start = 0;
            }
            Ev::IoReset => {
                tm.io_reset();
                since_fire = None;
                since_start = 0;
            }
            Ev::SetRange(l, h, exact_form) => {
                if l == h && *exact_form {
                    tm.set_exact(*l);
                } else {
                    tm.set_range(*l..=*h);
                }
                lo = *l as u64;
                hi = *h as u64;
            }
            Ev::Poll(n) => {
                for _ in 0..*n {
                    let fired = tm.poll_interrupt().is_some();
                    if !tm.enabled {
                        if fired {
                            return Err("a disabled timer raised an interrupt".into());
                        }
                        continue;
                    }
                    pattern.push(fired);
                    if fired {
                        fires += 1;
                        match since_fire {
                            Some(gap) => {
                                if gap < lo || gap > hi {
                                    return Err(format!("{gap} polls between two consecutive interrupts, the range is {lo}..={hi}"));
                                }
                            }
                            None => {
                                if since_start + 1 > hi + 1 {
                                    return Err(format!("first interrupt after enable/reset came at poll {}, at most {} allowed", since_start + 1, hi + 1));
                                }
                            }
                        }
                        since_fire = Some(0);
                    } else {
                        if let Some(g) = since_fire.as_mut() {
                            *g += 1;
                            if *g > hi {
                                return Err(format!("no interrupt for {g} polls after the previous one, the range is {lo}..={hi}"));
                            }
                        } else {
                            since_start += 1;
                            if since_start > hi + 1 {
                                return Err(format!("no interrupt within {since_start} polls after enable/reset, at most {} allowed", hi + 1));
                            }
                        }
                    }
                }
            }
        }
    }
    Ok((pattern, fires))
}

/// Wrapper that records what the wrapped timer answers when the simulator polls it.
struct Spy {
    inner: TimerDevice,
    log: Arc<Mutex<Vec<bool>>>,
}
impl ExternalDevice for Spy {
    fn io_read(&mut self, a: u16, e: bool) -> Option<u16> {
        self.inner.io_read(a, e)
    }
    fn io_write(&mut self, a: u16, d: u16) -> bool {
        self.inner.io_write(a, d)
    }
    fn io_reset(&mut self) {
        self.inner.io_reset()
    }
    fn poll_interrupt(&mut self) -> Option<Interrupt> {
        let r = self.inner.poll_interrupt();
        self.log.lock().unwrap().push(r.is_some());
        r
    }
}

pub fn check(tape: &[u32], st: &mut Stats) -> Result<(), String> {
    let c = decode(tape);
    let mut a = make(&c);
    let (pa, fires) = drive(&c, &mut a)?;
    let mut b = make(&c);
    let (pb, _) = drive(&c, &mut b)?;
    if pa != pb {
        return Err("two timers with the same seed and range produced different interrupt sequences".into());
    }
    st.class(if c.exact { "exact" } else if c.exclusive_end { "range-exclusive-end" } else { "range-inclusive" });
    if c.events.iter().any(|e| matches!(e, Ev::Disable)) {
        st.class("disable-enable");
    }
    if c.events.iter().any(|e| matches!(e, Ev::ResetRemaining | Ev::IoReset)) {
        st.class("reset");
    }
    if c.events.iter().any(|e| matches!(e, Ev::SetRange(..))) {
        st.class("range-changed-and-restarted");
    }
    if c.events.windows(3).any(|w| matches!(w, [Ev::Disable, Ev::SetRange(..), Ev::IoReset | Ev::ResetRemaining])) {
        st.class("range-changed-and-restarted-while-disabled");
    }
    if c.in_sim {
        // inside a simulator: a NOP sled polls the timer once per step
        st.class("inside-simulator");
        let mut sim = Simulator::new(SimFlags { machine_init: MachineInitStrategy::Known { value: 0 }, ignore_privilege: true, ..Default::default() });
        let log = Arc::new(Mutex::new(vec![]));
        let mut tm = make(&c);
        tm.enabled = true;
        tm.priority = 0; // never taken: the program is not disturbed
        sim.device_handler.add_device(Spy { inner: tm, log: Arc::clone(&log) }, &[]).map_err(|_| "spy did not attach")?;
        let steps = (c.hi as u64 * 5 + 20).min(4000);
        sim.run_with_limit(steps).map_err(|e| format!("NOP sled failed: {e:?}"))?;
        let got = log.lock().unwrap().clone();
        // the same timer polled directly
        let mut d = make(&c);
        d.enabled = true;
        let want: Vec<bool> = (0..got.len()).map(|_| d.poll_interrupt().is_some()).collect();
        if got != want {
            return Err("inside the simulator the timer was not polled exactly once per step (fire pattern differs from direct polling)".into());
        }
        if got.len() as u64 != steps {
            return Err(format!("{} polls for {steps} steps", got.len()));
        }
    }
    if fires >= 3 {
        st.nontrivial(tape);
        if st.want_sample() {
            st.sample(json!({"seed": c.seed, "range": format!("{}..={}", c.lo, c.hi), "events": format!("{:?}", c.events), "fires": fires}));
        }
    }
    Ok(())
}

pub fn describe(tape: &[u32]) -> Value {
    let c = decode(tape);
    json!({"seed": c.seed, "range": format!("{}..={}", c.lo, c.hi), "exclusive_end_form": c.exclusive_end, "exact": c.exact, "events": format!("{:?}", c.events), "in_sim": c.in_sim})
}

pub fn run(ctx: &Ctx) -> Outcome {
    let mut out = Outcome::new(
        "timers with exact counts and ranges a..=b / a..b+1 (1 <= a <= b <= 80, a few up to 10^4), seeds, enable/disable toggles, reset_remaining and io_reset, range changes (set_range / set_exact, each followed by a restart of the countdown, half of them while the timer is disabled), 200-6000 polls; polled directly and, for 1/4 of the cases, inside a simulator running a NOP sled (through a recording wrapper); \
         oracle: the number of polls strictly between consecutive interrupts lies in the range (exactly n), the first interrupt after enable/reset comes at most one poll after the maximum, a disabled timer never fires, equal seeds give equal sequences, one poll per simulator step; \
         ranges containing 0 are outside the property's domain and not generated; non-trivial = >= 3 interrupts observed; distinct by tape",
    );
    let cfg = TapeCfg::new(ctx, 2000, 100_000, 64);
    out.shards = cfg.shards;
    out.absorb(tape_search(ctx, "main", &cfg, check, describe));
    out.essential = ["exact", "range-inclusive", "range-exclusive-end", "disable-enable", "reset", "inside-simulator", "range-changed-and-restarted", "range-changed-and-restarted-while-disabled"].iter().map(|s| s.to_string()).collect();
    out
}

pub fn replay(_ctx: &Ctx, case: &Value, st: &mut Stats) -> Result<(), String> {
    let tape: Vec<u32> = serde_json::from_value(case["tape"].clone()).map_err(|e| e.to_string())?;
    check(&tape, st)
}
