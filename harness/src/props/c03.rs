//! C03 — Parser returns exactly the statements written, layout-insensitively.
use crate::driver::*;
use crate::gen::prog::{gen_freeform, gen_wellformed, ProgCfg};
use crate::model::stmt::*;
use crate::tape::Tape;
use lc3_ensemble::asm::assemble;
use lc3_ensemble::parse::parse_ast;
use serde_json::{json, Value};
use std::collections::BTreeMap;

pub struct Case {
    pub prog: Vec<MStmt>,
    pub assemblable: bool,
    pub r1: Rendered,
    pub r2: Option<Rendered>,
}

pub fn decode(tape: &[u32]) -> Case {
    let mut t = Tape::new(tape);
    let cfg = ProgCfg { max_stmts: 30, big: false, ..ProgCfg::default() };
    let assemblable = t.chance(2, 5);
    let prog = if assemblable { gen_wellformed(&mut t, &cfg).0 } else { gen_freeform(&mut t, &cfg, true) };
    let r1 = render(&prog, &mut t, RenderOpts { plain: false, wild_comments: true });
    let plain2 = t.chance(1, 4);
    let r2 = if assemblable { Some(render(&prog, &mut t, RenderOpts { plain: plain2, wild_comments: true })) } else { None };
    Case { prog, assemblable, r1, r2 }
}

/// clause (a)+(b): the parsed statements are exactly the written ones, with covering spans.
pub fn check_parse(prog: &[MStmt], r: &Rendered) -> Result<(), String> {
    let text = &r.text;
    let ast = parse_ast(text).map_err(|e| format!("a text written in the grammar was rejected: {e:?}\n--- text ---\n{text}"))?;
    if ast.len() != prog.len() {
        return Err(format!("{} statements written, {} parsed", prog.len(), ast.len()));
    }
    for (i, (w, p)) in prog.iter().zip(&ast).enumerate() {
        let got = from_real(p);
        if got.labels != w.labels {
            return Err(format!("statement {i}: labels written {:?}, parsed {:?}", w.labels, got.labels));
        }
        if got.kind.canon() != w.kind.canon() {
            return Err(format!("statement {i}: written {:?} ({:?}), parsed {:?}", w.kind, &text[r.layout[i].nucleus.clone()], got.kind));
        }
        let lay = &r.layout[i];
        let sp = &p.span;
        if !(sp.start <= lay.nucleus.start && sp.end >= lay.nucleus.end) {
            return Err(format!("statement {i}: span {sp:?} does not cover its text {:?} at {:?}", &text[lay.nucleus.clone()], lay.nucleus));
        }
        // the span stays on the line(s) of the nucleus
        let line_start = text[..lay.nucleus.start].rfind('\n').map(|x| x + 1).unwrap_or(0);
        let line_end = text[lay.nucleus.end..].find('\n').map(|x| x + lay.nucleus.end).unwrap_or(text.len());
        if sp.start < line_start || sp.end > line_end {
            return Err(format!("statement {i}: span {sp:?} leaves the line {line_start}..{line_end} of its text"));
        }
        for (j, l) in p.labels.iter().enumerate() {
            if l.span() != lay.labels[j] {
                return Err(format!("statement {i}: label {:?} has span {:?}, it was written at {:?}", l.name, l.span(), lay.labels[j]));
            }
        }
    }
    Ok(())
}

type Img = (Vec<(u16, Option<u16>)>, BTreeMap<String, u16>);
fn image_of(text: &str) -> Result<Img, String> {
    let ast = parse_ast(text).map_err(|e| format!("parse failed: {e:?}"))?;
    let sym = lc3_ensemble::asm::SymbolTable::new(&ast, None).map_err(|e| format!("symbol table failed: {:?}", e.kind))?;
    let labels: BTreeMap<String, u16> = sym.label_iter().map(|(n, a, _)| (n.to_uppercase(), a)).collect();
    let obj = assemble(ast).map_err(|e| format!("assemble failed: {:?}", e.kind))?;
    Ok((obj.addr_iter().collect(), labels))
}

pub fn check(tape: &[u32], st: &mut Stats) -> Result<(), String> {
    let c = decode(tape);
    let f = &c.r1.features;
    let surface = ["mixed-case", "lower-case", "crlf", "comment", "colon", "label-own-line", "alt-notation", "tab", "leading-zeros", "lower-reg"].iter().filter(|x| f.contains(**x)).count();
    for x in f {
        st.class(&format!("surface:{x}"));
    }
    if c.prog.iter().any(|s| s.labels.iter().any(|l| !l.is_ascii())) {
        st.class("non-ascii-label");
    }
    if c.prog.len() >= 5 && surface >= 3 {
        st.nontrivial(&c.r1.text);
        st.class("nontrivial");
        if st.want_sample() {
            st.sample(json!({"source": c.r1.text}));
        }
    }
    check_parse(&c.prog, &c.r1)?;
    if let Some(r2) = &c.r2 {
        st.class("metamorphic-pair");
        check_parse(&c.prog, r2)?;
        let a = image_of(&c.r1.text).map_err(|e| format!("rendering 1: {e}"))?;
        let b = image_of(&r2.text).map_err(|e| format!("rendering 2: {e}"))?;
        if a.0 != b.0 {
            return Err("two renderings of one program (differing only in case, spacing, comments, line ends, notation) assemble to different memory images".into());
        }
        if a.1 != b.1 {
            return Err(format!("two renderings of one program give different label addresses: {:?} vs {:?}", a.1, b.1));
        }
    }
    Ok(())
}

pub fn describe(tape: &[u32]) -> Value {
    let c = decode(tape);
    json!({"source": c.r1.text, "second_rendering": c.r2.map(|r| r.text)})
}

pub fn run(ctx: &Ctx) -> Outcome {
    let mut out = Outcome::new(
        "generated statement lists (well-formed programs and free-form lists incl. non-ASCII label suffixes) rendered with random surface syntax: per-token case, spaces/tabs, comma spacing, optional colons, \
         labels on own lines, blank/whitespace/comment lines, LF/CRLF/mixed, every numeric notation with leading zeros, all string escapes; parse_ast must return exactly the written statements (labels, kind, operand values) \
         with spans covering the nucleus inside its line and exact label spans; metamorphic: two independent renderings of an assemblable program give equal images and label addresses; \
         non-trivial = >=5 statements and >=3 distinct surface features; distinct by text",
    );
    let cfg = TapeCfg::new(ctx, 4000, 150_000, 3500);
    out.shards = cfg.shards;
    out.absorb(tape_search(ctx, "main", &cfg, check, describe));
    out.essential = ["nontrivial", "metamorphic-pair", "surface:crlf", "surface:colon", "surface:label-own-line", "surface:comment", "surface:mixed-case", "surface:alt-notation", "surface:unknown-escape", "non-ascii-label", "surface:no-final-newline"]
        .iter().map(|s| s.to_string()).collect();
    out
}

pub fn replay(_ctx: &Ctx, case: &Value, st: &mut Stats) -> Result<(), String> {
    let tape: Vec<u32> = serde_json::from_value(case["tape"].clone()).map_err(|e| e.to_string())?;
    check(&tape, st)
}
