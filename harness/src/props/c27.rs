//! C27 — Frame stack tracks calls and returns.
use crate::driver::*;
use crate::gen::exec::{gen_exec, ExecCfg};
use crate::model::cpu::*;
use crate::model::isa::MInstr;
use crate::props::c08::lockstep;
use crate::props::simrig::*;
use crate::tape::Tape;
use lc3_ensemble::sim::mem::MachineInitStrategy;
use serde_json::{json, Value};

pub fn decode(tape: &[u32]) -> (StateCase, Value) {
    let mut t = Tape::new(tape);
    if t.chance(1, 3) {
        // raw machine states with frames on and more registered signatures
        let mut c = gen_state(&mut t, false);
        c.spec.debug_frames = t.chance(4, 5);
        if c.spec.debug_frames {
            for _ in 0..t.pick(3) {
                let a = boundary_or_random(&mut t);
                c.spec.sr_defs.push((a, if t.chance(1, 2) { Sig::Stack(t.pick(4)) } else { Sig::Regs((0..t.pick(3)).map(|_| t.pick(8) as u8).collect()) }));
            }
        }
        if c.spec.debug_frames && t.chance(1, 3) {
            // call gadget: JSRR R1 at the PC to a subroutine with a calling-convention signature while R6 is at a
            // boundary (argument block at the very top of memory / wrapping to x0000 / on the I/O page border)
            let callee = *t.choose(&[0x4000u16, 0x3100, 0x0000, 0xFDFF]);
            c.spec.regs[1] = callee;
            c.spec.regs[6] = *t.choose(&[0xFFFFu16, 0xFFFE, 0xFFFD, 0xFFFC, 0xFFFB, 0x0000, 0xFDFF, 0xFDFE, 0x4000]);
            c.spec.overlay.push((c.spec.pc, crate::model::isa::enc(&MInstr::Jsrr { base: 1 })));
            c.spec.sr_defs.retain(|(a, _)| *a != callee);
            c.spec.sr_defs.push((callee, Sig::Stack(1 + t.pick(3))));
            if callee == 0x4000 || callee == 0x3100 {
                // inside the callee: a jump through a register other than R7 is not a return (the frame stays)
                let k = *t.choose(&[2usize, 6, 0, 3, 4, 5]);
                c.spec.regs[k] = 0x5000;
                c.spec.overlay.push((callee, 0xC000 | ((k as u16) << 6)));
                c.spec.overlay.push((0x5000, 0x0000));
                c.spec.overlay.push((0x5001, 0x0000));
                if c.steps < 4 {
                    c.steps = 4;
                    c.plan.resize(4, None);
                }
            }
            if let Some(p0) = c.plan.first_mut() {
                *p0 = None;
            }
        }
        if t.chance(1, 8) {
            // deep call chain: N x `JSR #0`, then a RET that returns to itself and pops one frame per step
            let n = 100 + t.pick(80);
            let at = 0x4000u16;
            for i in 0..n {
                c.spec.overlay.push((at + i as u16, 0x4800));
            }
            c.spec.overlay.push((at + n as u16, 0xC1C0));
            c.spec.pc = at;
            c.spec.kbd_ie = false;
            c.steps = 2 * n + 4;
            c.plan = vec![None; c.steps];
        }
        let d = describe_state(&c);
        (c, d)
    } else {
        let allow_fault = t.chance(1, 4);
        let p = gen_exec(&mut t, &ExecCfg { allow_fault, unbalanced: true, ..ExecCfg::default() }).expect("program fits");
        let debug = t.chance(3, 4);
        let mut spec = spec_for_prog(&p, t.chance(1, 2), debug, MachineInitStrategy::Known { value: 0 });
        for s in &p.subs {
            if t.chance(2, 3) {
                spec.sr_defs.push((*s, if t.chance(1, 2) { Sig::Stack(t.pick(4)) } else { Sig::Regs((0..1 + t.pick(3)).map(|_| t.pick(8) as u8).collect()) }));
            }
        }
        let steps = 30_000;
        let mut plan = vec![None; steps];
        for _ in 0..t.pick(4) {
            let at = t.pick(300);
            plan[at] = Some((0x80 + t.pick(3) as u8, 1 + t.pick(7) as u8));
        }
        if t.chance(1, 3) {
            spec.sr_defs.push((0x180, Sig::Regs(vec![6, 7])));
        }
        let d = describe_prog(&p);
        (StateCase { spec, plan, steps }, d)
    }
}

pub fn check(tape: &[u32], st: &mut Stats) -> Result<(), String> {
    let (c, _) = decode(tape);
    let mut max_depth = 0u64;
    let mut underflow = false;
    let mut prev_depth = 0u64;
    let mut with_args = false;
    let mut nonret_jump = false;
    let mut args_at_top = false;
    let mut kinds = (false, false, false);
    lockstep(&c, &mut Stats::default(), &mut |_rig, r, _| {
        max_depth = max_depth.max(r.depth);
        if prev_depth == 0 && matches!(r.info.instr, Some(MInstr::Jmp { base: 7 }) | Some(MInstr::Rti)) && r.info.exception_entry.is_none() && r.info.fault_phase.is_none() {
            underflow = true;
        }
        if prev_depth >= 1 && matches!(r.info.instr, Some(MInstr::Jmp { base }) if base != 7) && r.info.fault_phase.is_none() {
            nonret_jump = true;
        }
        if let Some(f) = r.frames.last() {
            if !f.args.is_empty() {
                with_args = true;
                if f.fp.is_some_and(|fp| fp.wrapping_add(4) as u32 + f.args.len() as u32 >= 0x10000) {
                    args_at_top = true;
                }
            }
            match f.kind {
                FrameKind::Subroutine => kinds.0 = true,
                FrameKind::Trap => kinds.1 = true,
                FrameKind::Interrupt => kinds.2 = true,
            }
        }
        prev_depth = r.depth;
        Ok(())
    })?;
    if c.spec.debug_frames {
        st.class("debug-frames-on");
    } else {
        st.class("debug-frames-off");
    }
    if max_depth >= 2 {
        st.class("depth>=2");
    }
    if max_depth >= 3 {
        st.class("depth>=3");
    }
    if max_depth >= 130 {
        st.class("depth>=130");
    }
    if underflow {
        st.class("return-at-depth-0");
    }
    if nonret_jump {
        st.class("jump-not-through-R7-inside-a-frame");
    }
    if with_args {
        st.class("frame-with-arguments");
    }
    if args_at_top {
        st.class("argument-block-reaches-top-of-memory");
    }
    if kinds.0 {
        st.class("subroutine-frame");
    }
    if kinds.1 {
        st.class("trap-frame");
    }
    if kinds.2 {
        st.class("interrupt-frame");
    }
    if max_depth >= 2 || underflow {
        st.nontrivial(tape);
        if st.want_sample() {
            st.sample(decode(tape).1);
        }
    }
    Ok(())
}

pub fn describe(tape: &[u32]) -> Value {
    let (c, d) = decode(tape);
    json!({"case": d, "state_json": case_to_json(&c)})
}

/// Strict mode: a RET whose jump is rejected (R7 points at an uninitialized word) did not execute, so it is not a
/// return: the frame depth stays as it was (the PC is left behind the fetched word, as after every error).  d nested `JSR #1` calls, then R7 += k, then RET.
fn strict_rejected_ret(d: usize, k: i16, debug_frames: bool) -> Result<(), String> {
    use lc3_ensemble::sim::{SimFlags, Simulator};
    let mut sim = Simulator::new(SimFlags { strict: true, debug_frames, machine_init: MachineInitStrategy::Known { value: 0 }, ..Default::default() });
    let e = |m: MInstr| crate::model::isa::enc(&m);
    let mut a = 0x3000u16;
    for _ in 0..d {
        sim.mem[a].set(e(MInstr::Jsr { off: 1 }));
        sim.mem[a + 1].set(0x0000);
        a += 2;
    }
    sim.mem[a].set(e(MInstr::Add { dr: 7, sr1: 7, src: crate::model::isa::Src::Imm(k) }));
    sim.mem[a + 1].set(0xC1C0);
    sim.pc = 0x3000;
    for i in 0..=d {
        sim.step_in().map_err(|e| format!("HARNESS: step {i} of the call chain failed: {e:?}"))?;
    }
    if sim.frame_stack.len() as usize != d {
        return Err(format!("HARNESS: depth {} after {d} calls", sim.frame_stack.len()));
    }
    let (pc, n) = (sim.pc, sim.instructions_run);
    let r = sim.step_in();
    if r.is_ok() {
        return Err(format!("HARNESS: strict mode accepted a RET to the uninitialized word x{:04X}", sim.reg_file[reg(7)].get()));
    }
    if sim.frame_stack.len() as usize != d {
        return Err(format!(
            "strict mode rejected the RET at x{pc:04X} ({r:?}) at depth {d}, yet afterwards the frame depth is {} (PC x{:04X}, {} instructions run; before: depth {d}, PC x{pc:04X}, {n}): a return that did not execute must not pop a frame",
            sim.frame_stack.len(),
            sim.pc,
            sim.instructions_run
        ));
    }
    Ok(())
}

pub fn run(ctx: &Ctx) -> Outcome {
    let mut out = Outcome::new(
        "generated user programs with nested JSR/JSRR subroutines (R7 saved on the stack), I/O traps (which nest further traps inside the OS), top-level RETs (underflow), scheduled interrupts, registered calling-convention and pass-by-register signatures, \
         debug frames on/off, real/virtual traps - plus raw machine states (an eighth of them a chain of 100-180 nested calls unwound completely; a third of them with a JSRR call gadget to a calling-convention subroutine while R6 sits at xFFFB..xFFFF, x0000 or the I/O border) - stepped in lock step with the reference machine; after every step frame_stack.len() must equal the model's saturating depth and, with debug frames, the frame list must be equal element-wise \
         (caller, callee, kind, frame pointer, argument values); non-trivial = depth >= 2 reached or a return executed at depth 0; distinct by tape",
    );
    let cfg = TapeCfg::new(ctx, 1500, 60_000, 600);
    out.shards = cfg.shards;
    // strict mode, rejected RET: 6 depths x 3 distances x debug frames on/off
    out.absorb(par_enumerate(36, 4, |i, st| {
        let (d, k, df) = (1 + (i % 6) as usize, [10i16, 15, 3][(i / 6 % 3) as usize], i >= 18);
        st.class("strict-mode-rejected-ret");
        strict_rejected_ret(d, k, df).map_err(|m| Failure { case: json!({"strict_rejected_ret": {"depth": d, "r7_plus": k, "debug_frames": df}}), message: m, description: json!(format!("{d} nested JSR #1, ADD R7,R7,#{k}, RET in strict mode (debug_frames {df})")) })
    }));
    if out.failed() {
        return out;
    }
    out.absorb(tape_search(ctx, "main", &cfg, check, describe));
    out.essential = ["strict-mode-rejected-ret", "debug-frames-on", "debug-frames-off", "depth>=2", "depth>=3", "depth>=130", "return-at-depth-0", "frame-with-arguments", "jump-not-through-R7-inside-a-frame", "argument-block-reaches-top-of-memory", "subroutine-frame", "trap-frame", "interrupt-frame"].iter().map(|s| s.to_string()).collect();
    out
}

pub fn replay(_ctx: &Ctx, case: &Value, st: &mut Stats) -> Result<(), String> {
    if let Some(c) = case.get("strict_rejected_ret") {
        return strict_rejected_ret(c["depth"].as_u64().unwrap_or(1) as usize, c["r7_plus"].as_i64().unwrap_or(10) as i16, c["debug_frames"].as_bool().unwrap_or(false));
    }
    if case.get("state").is_some() {
        let c = case_from_json(&case["state"])?;
        return lockstep(&c, st, &mut |_, _, _| Ok(())).map(|_| ());
    }
    let tape: Vec<u32> = serde_json::from_value(case["tape"].clone()).map_err(|e| e.to_string())?;
    check(&tape, st)
}
