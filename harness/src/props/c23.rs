//! C23 — Symbol-table label queries agree and ignore case.
use crate::driver::*;
use crate::gen::prog::{gen_wellformed, ProgCfg};
use crate::model::asm::asm_model;
use crate::model::stmt::*;
use crate::tape::Tape;
use lc3_ensemble::asm::assemble_debug;
use serde_json::{json, Value};
use std::collections::BTreeSet;

pub fn check(tape: &[u32], st: &mut Stats) -> Result<(), String> {
    let mut t = Tape::new(tape);
    let (prog, _) = gen_wellformed(&mut t, &ProgCfg { max_stmts: 20, big: false, ..ProgCfg::default() });
    let rendered = render(&prog, &mut t, RenderOpts { plain: false, wild_comments: false });
    check_prog(&prog, &rendered.layout, &rendered.text, &mut t, st)
}

pub fn check_prog(prog: &[MStmt], layout: &[StmtLayout], text: &str, t: &mut Tape, st: &mut Stats) -> Result<(), String> {
    struct L<'a> { layout: &'a [StmtLayout], text: &'a str }
    let rendered = L { layout, text };
    let mut t = t;
    let prog = prog.to_vec();
    let model = asm_model(&prog);
    if !model.ok() {
        st.class("generator-illformed");
        return Ok(());
    }
    let Some(real) = to_real_all(&prog, rendered.layout) else {
        st.class("generator-unconstructible");
        return Ok(());
    };
    let text = rendered.text;
    let obj = assemble_debug(real, text).map_err(|e| format!("assemble_debug rejected a well-formed program: {:?}", e.kind))?;
    let sym = obj.symbol_table().ok_or("no symbol table")?;

    // label listing
    let got: BTreeSet<(String, u16, bool)> = sym.label_iter().map(|(n, a, e)| (n.to_string(), a, e)).collect();
    let want: BTreeSet<(String, u16, bool)> = model.labels.iter().map(|(n, i)| (n.clone(), i.addr, i.external)).collect();
    if got != want {
        return Err(format!("label listing differs: got {got:?}, expected {want:?}"));
    }
    if model.labels.is_empty() {
        st.class("no-labels");
    }
    if prog.iter().any(|s| matches!(s.kind, MKind::External(_)) && !s.labels.is_empty()) {
        st.class("label-on-external-line");
    }
    let mut case_differs = false;
    for (name, info) in &model.labels {
        // the spelling of the first occurrence in the source
        let (si, li) = info.first;
        let first_span = if li == usize::MAX { rendered.layout[si].operand_label.clone().unwrap() } else { rendered.layout[si].labels[li].clone() };
        let first_spelling = &text[first_span.clone()];
        let mut spellings = vec![first_spelling.to_string(), name.clone(), name.to_ascii_lowercase()];
        for _ in 0..2 {
            spellings.push(flip_case(&mut t, first_spelling));
        }
        for sp in &spellings {
            if sp != first_spelling {
                case_differs = true;
            }
            if sym.lookup_label(sp) != Some(info.addr) {
                return Err(format!("lookup_label({sp:?}) = {:?}, expected Some(x{:04X}) (label {first_spelling:?})", sym.lookup_label(sp), info.addr));
            }
            match sym.get_label_source(sp) {
                None => return Err(format!("get_label_source({sp:?}) = None, label is defined as {first_spelling:?} at {first_span:?}")),
                Some(r) => {
                    if r != first_span {
                        return Err(format!("get_label_source({sp:?}) = {r:?}, first occurrence of the label is at {first_span:?}"));
                    }
                    if !text.get(r.clone()).is_some_and(|s| s.eq_ignore_ascii_case(name)) {
                        return Err(format!("get_label_source({sp:?}) = {r:?} does not cover a spelling of the label"));
                    }
                }
            }
        }
        // reverse lookup returns some label recorded at that address
        match sym.rev_lookup_label(info.addr) {
            None => return Err(format!("rev_lookup_label(x{:04X}) = None but {name} is recorded there", info.addr)),
            Some(n) => {
                if !model.labels.get(&n.to_uppercase()).is_some_and(|i| i.addr == info.addr) {
                    return Err(format!("rev_lookup_label(x{:04X}) = {n:?}, which is not a label at that address", info.addr));
                }
            }
        }
        if info.external {
            st.class("external-label");
        }
        if info.occurrences.len() > 1 {
            st.class("repeated-label");
        }
    }
    // absent names / addresses
    let absent = ["zz_absent", "Q9_", "_nope_"];
    for a in absent {
        if !model.labels.contains_key(&a.to_uppercase()) {
            if sym.lookup_label(a).is_some() || sym.get_label_source(a).is_some() {
                return Err(format!("queries for the undefined name {a:?} returned a result"));
            }
        }
    }
    let addrs: BTreeSet<u16> = model.labels.values().map(|i| i.addr).collect();
    for probe in [0x0000u16, 0x2FFF, 0x3000, 0x3001, 0xFDFF, 0xFE00, t.u16(), t.u16()] {
        if !addrs.contains(&probe) {
            if let Some(n) = sym.rev_lookup_label(probe) {
                return Err(format!("rev_lookup_label(x{probe:04X}) = {n:?} but no label is recorded at that address"));
            }
        }
    }
    if case_differs && !model.labels.is_empty() {
        st.nontrivial(&prog);
        st.class("case-differs");
        if st.want_sample() {
            st.sample(json!({"source": text, "labels": model.labels.iter().map(|(n, i)| format!("{n}=x{:04X}{}", i.addr, if i.external {" ext"} else {""})).collect::<Vec<_>>() }));
        }
    }
    Ok(())
}

pub fn describe(tape: &[u32]) -> Value {
    let mut t = Tape::new(tape);
    let (prog, _) = gen_wellformed(&mut t, &ProgCfg { max_stmts: 20, big: false, ..ProgCfg::default() });
    let rendered = render(&prog, &mut t, RenderOpts { plain: false, wild_comments: false });
    json!({ "source": rendered.text })
}

pub fn run(ctx: &Ctx) -> Outcome {
    let mut out = Outcome::new(
        "well-formed generated programs with mixed-case ASCII labels (repeated labels on one address, labels on .end and on .external lines inside a block, external declarations) assembled with debug symbols; \
         for every label x {original, upper, lower, 2 random case flips}: lookup_label == model address, get_label_source == span of first occurrence, rev_lookup_label in labels at that address; \
         label_iter == model set; absent names/addresses give None; non-trivial = a queried spelling differs in case from the definition; distinct by statement list",
    );
    let cfg = TapeCfg::new(ctx, 4000, 100_000, 2500);
    out.shards = cfg.shards;
    out.absorb(tape_search(ctx, "main", &cfg, check, describe));
    out.essential = vec!["case-differs".into(), "external-label".into(), "repeated-label".into(), "label-on-external-line".into()];
    out.forbidden = vec!["generator-illformed".into(), "generator-unconstructible".into()];
    out
}

pub fn replay(_ctx: &Ctx, case: &Value, st: &mut Stats) -> Result<(), String> {
    if let Some(src) = case["source"].as_str() {
        let (prog, layout) = parse_source(src)?;
        let mut t = Tape::new(&[]);
        return check_prog(&prog, &layout, src, &mut t, st);
    }
    let tape: Vec<u32> = serde_json::from_value(case["tape"].clone()).map_err(|e| e.to_string())?;
    check(&tape, st)
}
