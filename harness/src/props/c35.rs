//! C35 — Bounded offsets accept exactly the representable values (exhaustive).
use crate::driver::*;
use lc3_ensemble::ast::Offset;
use serde_json::{json, Value};

fn check_signed<const N: u32>(v: i16) -> Result<(), String> {
    let n = N as i32;
    let lo = -(1i32 << (n - 1));
    let hi = (1i32 << (n - 1)) - 1;
    let fits = (v as i32) >= lo && (v as i32) <= hi;
    match Offset::<i16, N>::new(v) {
        Ok(o) => {
            if !fits {
                return Err(format!("Offset::<i16,{N}>::new({v}) accepted, range is [{lo},{hi}]"));
            }
            if o.get() != v {
                return Err(format!("Offset::<i16,{N}>::new({v}).get() = {}", o.get()));
            }
        }
        Err(_) => {
            if fits {
                return Err(format!("Offset::<i16,{N}>::new({v}) rejected, range is [{lo},{hi}]"));
            }
        }
    }
    // sign extension of the low N bits, computed in i32
    let low = (v as u16 as i32) & ((1i32 << n) - 1);
    let expect = if low >= (1i32 << (n - 1)) { low - (1i32 << n) } else { low };
    let got = Offset::<i16, N>::new_trunc(v).get() as i32;
    if got != expect {
        return Err(format!("Offset::<i16,{N}>::new_trunc({v}).get() = {got}, expected {expect}"));
    }
    Ok(())
}
fn check_unsigned<const N: u32>(v: u16) -> Result<(), String> {
    let n = N as u32;
    let limit = 1u32 << n;
    let fits = (v as u32) < limit;
    match Offset::<u16, N>::new(v) {
        Ok(o) => {
            if !fits {
                return Err(format!("Offset::<u16,{N}>::new({v}) accepted, limit is {limit}"));
            }
            if o.get() != v {
                return Err(format!("Offset::<u16,{N}>::new({v}).get() = {}", o.get()));
            }
        }
        Err(_) => {
            if fits {
                return Err(format!("Offset::<u16,{N}>::new({v}) rejected, limit is {limit}"));
            }
        }
    }
    let expect = (v as u32) % limit;
    let got = Offset::<u16, N>::new_trunc(v).get() as u32;
    if got != expect {
        return Err(format!("Offset::<u16,{N}>::new_trunc({v}).get() = {got}, expected {expect}"));
    }
    Ok(())
}

macro_rules! dispatch {
    ($n:expr, $f:ident, $v:expr) => {
        match $n {
            1 => $f::<1>($v), 2 => $f::<2>($v), 3 => $f::<3>($v), 4 => $f::<4>($v),
            5 => $f::<5>($v), 6 => $f::<6>($v), 7 => $f::<7>($v), 8 => $f::<8>($v),
            9 => $f::<9>($v), 10 => $f::<10>($v), 11 => $f::<11>($v), 12 => $f::<12>($v),
            13 => $f::<13>($v), 14 => $f::<14>($v), 15 => $f::<15>($v), 16 => $f::<16>($v),
            _ => unreachable!(),
        }
    };
}

fn check_one(n: u32, signed: bool, raw: u16) -> Result<(), String> {
    if signed {
        dispatch!(n, check_signed, raw as i16)
    } else {
        dispatch!(n, check_unsigned, raw)
    }
}

fn nontrivial(n: u32, signed: bool, raw: u16) -> bool {
    // within 2 of an accept/reject boundary
    if signed {
        let v = raw as i16 as i32;
        let lo = -(1i32 << (n - 1));
        let hi = (1i32 << (n - 1)) - 1;
        (v - lo).abs() <= 2 || (v - hi).abs() <= 2
    } else {
        let v = raw as i32;
        (v - (1i32 << n)).abs() <= 2
    }
}

pub fn run(_ctx: &Ctx) -> Outcome {
    let mut out = Outcome::new(
        "exhaustive enumeration of (N in 1..=16) x (signed|unsigned) x all 65536 values; \
         new() and new_trunc() compared with i32 arithmetic; non-trivial = value within 2 of an accept/reject boundary of that width",
    );
    out.exhaustive = true;
    out.shards = 16;
    let r = par_enumerate(32, 16, |idx, st| {
        let n = (idx / 2 + 1) as u32;
        let signed = idx % 2 == 0;
        st.evaluations -= 1;
        for raw in 0..=u16::MAX {
            st.evaluations += 1;
            if nontrivial(n, signed, raw) {
                st.nontrivial(&(n, signed, raw));
                st.class(if signed { "boundary-signed" } else { "boundary-unsigned" });
                if raw % 7 == 3 {
                    st.sample(json!({"N": n, "signed": signed, "value": if signed { raw as i16 as i32 } else { raw as i32 }}));
                }
            }
            if let Err(m) = check_one(n, signed, raw) {
                return Err(Failure {
                    case: json!({"N": n, "signed": signed, "raw": raw}),
                    message: m,
                    description: json!(format!("N={n} signed={signed} raw=0x{raw:04X}")),
                });
            }
        }
        Ok(())
    });
    out.absorb(r);
    out.essential = vec!["boundary-signed".into(), "boundary-unsigned".into()];
    out
}

pub fn replay(_ctx: &Ctx, case: &Value, _st: &mut Stats) -> Result<(), String> {
    let n = case["N"].as_u64().ok_or("bad case")? as u32;
    let signed = case["signed"].as_bool().ok_or("bad case")?;
    let raw = case["raw"].as_u64().ok_or("bad case")? as u16;
    check_one(n, signed, raw)
}
