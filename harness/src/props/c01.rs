//! C01 — Assembled image is the exact LC-3 encoding of the source.
use crate::driver::*;
use crate::gen::prog::{gen_wellformed, reach_gadget, GenInfo, ProgCfg};
use crate::model::asm::{asm_model, AsmOut};
use crate::model::stmt::*;
use crate::tape::Tape;
use lc3_ensemble::asm::{assemble, assemble_debug, ObjectFile};
use serde_json::{json, Value};
use std::collections::{BTreeMap, BTreeSet};

pub struct Case {
    pub prog: Vec<MStmt>,
    pub info: GenInfo,
    pub rendered: Rendered,
}

pub fn decode(tape: &[u32]) -> Case {
    let mut t = Tape::new(tape);
    let (mut prog, mut info) = gen_wellformed(&mut t, &ProgCfg::default());
    if t.chance(1, 3) {
        // label exactly at the edge of a field's reach (keeps the program well-formed unless blocks collide)
        let mut p2 = prog.clone();
        if reach_gadget(&mut t, &mut p2, false).is_some() && asm_model(&p2).ok() {
            prog = p2;
            info.extreme_offsets += 1;
            info.label_pc_operands += 1;
        }
    }
    let plain = t.chance(1, 8);
    let rendered = render(&prog, &mut t, RenderOpts { plain, wild_comments: true });
    Case { prog, info, rendered }
}

pub fn describe(tape: &[u32]) -> Value {
    let c = decode(tape);
    json!({ "source": c.rendered.text })
}

pub fn compare_image(obj: &ObjectFile, model: &AsmOut, what: &str) -> Result<(), String> {
    let mut got: BTreeMap<u16, Option<u16>> = BTreeMap::new();
    for (a, w) in obj.addr_iter() {
        if got.insert(a, w).is_some() {
            return Err(format!("{what}: address x{a:04X} is defined twice in the object file"));
        }
    }
    if got != model.image {
        for (a, w) in &model.image {
            match got.get(a) {
                None => return Err(format!("{what}: address x{a:04X} should hold {} but is not defined", fmt_w(*w))),
                Some(g) if g != w => return Err(format!("{what}: address x{a:04X} holds {} but should hold {}", fmt_w(*g), fmt_w(*w))),
                _ => {}
            }
        }
        for (a, w) in &got {
            if !model.image.contains_key(a) {
                return Err(format!("{what}: address x{a:04X} is defined ({}) but no statement occupies it", fmt_w(*w)));
            }
        }
    }
    Ok(())
}
fn fmt_w(w: Option<u16>) -> String {
    match w {
        Some(v) => format!("x{v:04X}"),
        None => "<uninitialized>".into(),
    }
}

pub fn compare_labels(obj: &ObjectFile, model: &AsmOut) -> Result<(), String> {
    let sym = obj.symbol_table().ok_or("assemble_debug returned an object file without symbol table")?;
    let got: BTreeSet<(String, u16, bool)> = sym.label_iter().map(|(n, a, e)| (n.to_string(), a, e)).collect();
    let want: BTreeSet<(String, u16, bool)> = model.labels.iter().map(|(n, i)| (n.clone(), i.addr, i.external)).collect();
    if got != want {
        let missing: Vec<_> = want.difference(&got).collect();
        let extra: Vec<_> = got.difference(&want).collect();
        return Err(format!("label table differs: missing/wrong {missing:?}, unexpected {extra:?}"));
    }
    for (n, i) in &model.labels {
        if sym.lookup_label(n) != Some(i.addr) {
            return Err(format!("lookup_label({n:?}) = {:?}, expected x{:04X}", sym.lookup_label(n), i.addr));
        }
    }
    Ok(())
}

pub fn check(tape: &[u32], st: &mut Stats) -> Result<(), String> {
    let c = decode(tape);
    let model = asm_model(&c.prog);
    if !model.ok() {
        st.class("generator-illformed");
        return Ok(());
    }
    let Some(real) = to_real_all(&c.prog, &c.rendered.layout) else {
        st.class("generator-unconstructible");
        return Ok(());
    };
    // classification
    let kinds: BTreeSet<&'static str> = c.prog.iter().map(|s| s.kind.name()).collect();
    for k in &kinds {
        st.class(&format!("kind:{k}"));
    }
    let i = &c.info;
    if i.at_zero { st.class("block-at-x0000"); }
    if i.ends_at_io { st.class("block-ends-at-xFE00"); }
    if i.touching { st.class("touching-blocks"); }
    if i.extreme_offsets > 0 { st.class("extreme-offset"); }
    if i.backward > 0 { st.class("backward-ref"); }
    if i.forward > 0 { st.class("forward-ref"); }
    if i.wrap_reach > 0 { st.class("wraparound-ref"); }
    if i.fill_external > 0 { st.class("fill-external"); }
    if i.blocks > 1 { st.class("multi-block"); }
    if i.label_pc_operands >= 1 && kinds.len() >= 3 {
        st.nontrivial(&c.prog);
        st.class("nontrivial");
        if st.want_sample() {
            st.sample(json!({ "source": c.rendered.text }));
        }
    }

    let obj = assemble(real.clone()).map_err(|e| format!("assemble() rejected a well-formed program: {:?}", e.kind))?;
    compare_image(&obj, &model, "assemble")?;
    if obj.symbol_table().is_some() {
        return Err("assemble() (no debug symbols) returned an object file with a symbol table".into());
    }
    let objd = assemble_debug(real, &c.rendered.text).map_err(|e| format!("assemble_debug() rejected a well-formed program: {:?}", e.kind))?;
    compare_image(&objd, &model, "assemble_debug")?;
    compare_labels(&objd, &model)?;
    Ok(())
}

pub fn run(ctx: &Ctx) -> Outcome {
    let mut out = Outcome::new(
        "tape-decoded well-formed programs (1-4 blocks at x0000/x0200/x3000/ending at xFE00/touching/random origins, every opcode, alias and directive, \
         label operands chosen among labels within reach incl. extreme and wrap-around reach, externals) rendered with random surface syntax, built as Vec<Stmt> through the public constructors, \
         assembled with assemble and assemble_debug; image (address->word|uninit) and label table compared with an independent two-pass assembler + ISA encoder; \
         non-trivial = >=1 label-resolved PC-relative operand and >=3 distinct statement kinds; distinct by statement list",
    );
    let cfg = TapeCfg::new(ctx, 3000, 150_000, 3000);
    out.shards = cfg.shards;
    out.absorb(tape_search(ctx, "main", &cfg, check, describe));
    out.essential = ["nontrivial", "extreme-offset", "backward-ref", "forward-ref", "block-at-x0000", "block-ends-at-xFE00", "kind:.blkw", "kind:.stringz", "kind:.fill-label", "kind:JSR", "kind:RET", "kind:NOP", "kind:PUTSP"]
        .iter().map(|s| s.to_string()).collect();
    out.forbidden = vec!["generator-illformed".into(), "generator-unconstructible".into()];
    out
}

pub fn replay(_ctx: &Ctx, case: &Value, st: &mut Stats) -> Result<(), String> {
    let tape: Vec<u32> = serde_json::from_value(case["tape"].clone()).map_err(|e| e.to_string())?;
    check(&tape, st)
}
