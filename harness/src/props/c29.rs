//! C29 — Loading places exactly the object image into a fresh machine.
use crate::driver::*;
use crate::gen::prog::{gen_wellformed, ProgCfg};
use crate::model::asm::asm_model;
use crate::model::cpu::*;
use crate::model::stmt::*;
use crate::props::simrig::reg;
use crate::tape::Tape;
use lc3_ensemble::asm::{assemble, assemble_debug};
use lc3_ensemble::sim::mem::MachineInitStrategy;
use lc3_ensemble::sim::{SimFlags, Simulator};
use serde_json::{json, Value};
use std::collections::BTreeMap;

fn snapshot(sim: &Simulator) -> (Vec<(u16, u16)>, [(u16, u16); 8], u16) {
    let mem = (0..=u16::MAX).map(|a| sim.mem[a].verif_parts()).collect();
    let mut regs = [(0, 0); 8];
    for i in 0..8 {
        regs[i] = sim.reg_file[reg(i)].verif_parts();
    }
    (mem, regs, sim.pc)
}

pub fn check_fresh(init: MachineInitStrategy) -> Result<(), String> {
    let sim = Simulator::new(SimFlags { machine_init: init, ..Default::default() });
    let os = lc3_ensemble::sim::_os_obj_file();
    for (a, w) in os.addr_iter() {
        let (d, i) = sim.mem[a].verif_parts();
        match w {
            Some(v) => {
                if d != v || i != 0xFFFF {
                    return Err(format!("new simulator ({init:?}): OS word x{a:04X} holds x{d:04X} (init mask x{i:04X}), the OS image says x{v:04X}"));
                }
            }
            None => {}
        }
    }
    for a in IO_START..=u16::MAX {
        let (d, i) = sim.mem[a].verif_parts();
        if d != 0 || i != 0xFFFF {
            return Err(format!("new simulator ({init:?}): I/O page word x{a:04X} = x{d:04X} (init mask x{i:04X}), expected an initialised zero"));
        }
    }
    if sim.pc != 0x3000 {
        return Err(format!("new simulator: PC = x{:04X}", sim.pc));
    }
    Ok(())
}

pub fn check(tape: &[u32], st: &mut Stats) -> Result<(), String> {
    let mut t = Tape::new(tape);
    let (prog, info) = gen_wellformed(&mut t, &ProgCfg { externals: false, max_stmts: 20, ..ProgCfg::default() });
    let rendered = render(&prog, &mut t, RenderOpts { plain: true, wild_comments: false });
    let model = asm_model(&prog);
    if !model.ok() {
        st.class("generator-illformed");
        return Ok(());
    }
    let Some(real) = to_real_all(&prog, &rendered.layout) else { return Ok(()) };
    let debug = t.chance(1, 2);
    let obj = if debug { assemble_debug(real, &rendered.text) } else { assemble(real) }.map_err(|e| format!("assemble failed: {:?}", e.kind))?;
    let init = match t.pick(3) {
        0 => MachineInitStrategy::Unseeded,
        1 => MachineInitStrategy::Seeded { seed: t.raw() as u64 },
        _ => MachineInitStrategy::Known { value: t.u16() },
    };
    st.class(&format!("init:{}", match init { MachineInitStrategy::Unseeded => "unseeded", MachineInitStrategy::Seeded { .. } => "seeded", _ => "known" }));
    check_fresh(init)?;
    let mut sim = Simulator::new(SimFlags { machine_init: init, ..Default::default() });
    let rounds = 1 + t.pick(2);
    let image: BTreeMap<u16, Option<u16>> = model.image.clone();
    for round in 0..rounds {
        if round > 0 {
            // after execution
            let _ = sim.run_with_limit(30);
            st.class("reload-after-execution");
        }
        let (mem0, regs0, pc0) = snapshot(&sim);
        sim.load_obj_file(&obj).map_err(|e| format!("load_obj_file failed: {e:?}"))?;
        let (mem1, regs1, pc1) = snapshot(&sim);
        if regs0 != regs1 {
            return Err(format!("loading changed the registers: {regs0:04X?} -> {regs1:04X?}"));
        }
        if pc0 != pc1 {
            return Err(format!("loading changed the PC from x{pc0:04X} to x{pc1:04X}"));
        }
        for a in 0..=u16::MAX {
            let (before, after) = (mem0[a as usize], mem1[a as usize]);
            match image.get(&a) {
                Some(Some(w)) => {
                    if after != (*w, 0xFFFF) {
                        return Err(format!("after loading, x{a:04X} holds x{:04X} (init mask x{:04X}); the object file says x{w:04X}", after.0, after.1));
                    }
                }
                Some(None) => {
                    if after.1 != 0 {
                        return Err(format!("after loading, the reserved (.blkw) word x{a:04X} is marked initialised (mask x{:04X})", after.1));
                    }
                }
                None => {
                    if before != after {
                        return Err(format!("loading changed x{a:04X}, which the object file does not define: x{:04X}/mask x{:04X} -> x{:04X}/mask x{:04X}", before.0, before.1, after.0, after.1));
                    }
                }
            }
        }
    }
    let has_blkw = image.values().any(|w| w.is_none());
    if has_blkw {
        st.class("has-blkw");
    }
    if info.at_zero {
        st.class("block-at-x0000");
    }
    if info.ends_at_io {
        st.class("block-ends-at-xFE00");
    }
    if has_blkw || info.blocks >= 2 {
        st.nontrivial(&rendered.text);
        if st.want_sample() {
            st.sample(json!({"source": rendered.text, "init": format!("{init:?}")}));
        }
    }
    Ok(())
}

pub fn describe(tape: &[u32]) -> Value {
    let mut t = Tape::new(tape);
    let (prog, _) = gen_wellformed(&mut t, &ProgCfg { externals: false, max_stmts: 20, ..ProgCfg::default() });
    json!({"source": render(&prog, &mut t, RenderOpts { plain: true, wild_comments: false }).text})
}

pub fn run(ctx: &Ctx) -> Outcome {
    let mut out = Outcome::new(
        "generated object files without externals (blocks at x0000, ending at xFE00, touching, .blkw regions, with/without debug symbols) loaded into simulators with every initialisation strategy, once or repeatedly and after executing 30 instructions; \
         fresh machine: every word of the OS image present and initialised, I/O page all initialised zeros; load: exactly the file's initialised words get value + full init mask, reserved words get an empty init mask, every other word (value and mask, read through the hook), all registers and the PC are unchanged (full 65536-word before/after diff); \
         non-trivial = file has a .blkw or >= 2 blocks; distinct by source",
    );
    let cfg = TapeCfg::new(ctx, 300, 10_000, 2500);
    out.shards = cfg.shards;
    out.absorb(tape_search(ctx, "main", &cfg, check, describe));
    out.essential = ["init:unseeded", "init:seeded", "init:known", "has-blkw", "block-at-x0000", "block-ends-at-xFE00", "reload-after-execution"].iter().map(|s| s.to_string()).collect();
    out.forbidden = vec!["generator-illformed".into()];
    out
}

pub fn replay(_ctx: &Ctx, case: &Value, st: &mut Stats) -> Result<(), String> {
    let tape: Vec<u32> = serde_json::from_value(case["tape"].clone()).map_err(|e| e.to_string())?;
    check(&tape, st)
}
