//! C19 — Reading untrusted object files never panics.
use crate::driver::*;
use crate::props::objgen::gen_object;
use crate::tape::Tape;
use lc3_ensemble::asm::encoding::{BinaryFormat, ObjFileFormat, TextFormat};
use lc3_ensemble::asm::{assemble, assemble_debug, ObjectFile};
use lc3_ensemble::parse::parse_ast;
use lc3_ensemble::sim::mem::MachineInitStrategy;
use lc3_ensemble::sim::{SimFlags, Simulator};
use serde_json::{json, Value};
use std::sync::OnceLock;

/// Fixed pool of assembled files the untrusted object is linked with.
fn pool() -> &'static Vec<ObjectFile> {
    static POOL: OnceLock<Vec<ObjectFile>> = OnceLock::new();
    POOL.get_or_init(|| {
        let srcs: [(&str, bool); 6] = [
            (".orig x3000\nA ADD R0,R0,#1\nB .fill 7\nLOOP BR LOOP\nX .blkw 2\nMAIN HALT\n.end\n", true),
            (".external A\n.external X\n.orig x4000\n.fill A\n.fill X\nP .fill 3\n.end\n", true),
            (".orig x5000\nHALT\n.end\n", false),
            (".orig x0000\nZ .fill 1\n.fill 2\n.end\n", true),
            (".orig xFDFE\nEND1 .fill 1\nEND2 .fill 2\n.end\n", true),
            ("", true),
        ];
        srcs.iter()
            .map(|(s, dbg)| {
                let ast = parse_ast(s).unwrap();
                if *dbg { assemble_debug(ast, s).unwrap() } else { assemble(ast).unwrap() }
            })
            .collect()
    })
}

/// Everything the property lists, for an object that deserialized.
fn exercise(o: &ObjectFile) -> Result<(), String> {
    let bin = no_panic("BinaryFormat::serialize (re-serialization)", || BinaryFormat::serialize(o))?;
    let txt = no_panic("TextFormat::serialize (re-serialization)", || TextFormat::serialize(o))?;
    let _ = no_panic("BinaryFormat::deserialize of the re-serialization", || BinaryFormat::deserialize(&bin))?;
    let _ = no_panic("TextFormat::deserialize of the re-serialization", || TextFormat::deserialize(&txt))?;
    for (i, a) in pool().iter().enumerate() {
        let _ = no_panic(&format!("ObjectFile::link(untrusted, pool[{i}])"), || ObjectFile::link(o.clone(), a.clone()).map(|l| l.addr_iter().count()))?;
        let _ = no_panic(&format!("ObjectFile::link(pool[{i}], untrusted)"), || ObjectFile::link(a.clone(), o.clone()).map(|l| l.addr_iter().count()))?;
    }
    no_panic("Simulator::load_obj_file", || {
        let mut sim = Simulator::new(SimFlags { machine_init: MachineInitStrategy::Known { value: 0 }, ..Default::default() });
        let _ = sim.load_obj_file(o);
    })?;
    Ok(())
}

pub fn oracle_binary(bytes: &[u8]) -> Result<bool, String> {
    match no_panic("BinaryFormat::deserialize", || BinaryFormat::deserialize(bytes))? {
        None => Ok(false),
        Some(o) => exercise(&o).map(|_| true),
    }
}
pub fn oracle_text(text: &str) -> Result<bool, String> {
    match no_panic("TextFormat::deserialize", || TextFormat::deserialize(text))? {
        None => Ok(false),
        Some(o) => exercise(&o).map(|_| true),
    }
}

// ------------------------------------------------------------------------------
// generators

fn interesting_u16(t: &mut Tape) -> u16 {
    match t.pick(10) {
        0 => 0,
        1 => 0xFFFF,
        2 => 0xFE00,
        3 => 0xFDFF,
        4 => 0x3000,
        5 => 0x3001,
        6 => 0x4000,
        7 => 0x8000,
        _ => t.u16(),
    }
}
fn interesting_u64(t: &mut Tape) -> u64 {
    match t.pick(8) {
        0 => 0,
        1 => 1,
        2 => u64::MAX,
        3 => u64::MAX - 1,
        4 => u32::MAX as u64,
        5 => (1u64 << 63) + 2,
        _ => t.pick(40) as u64,
    }
}
fn name(t: &mut Tape) -> Vec<u8> {
    const N: &[&[u8]] = &[b"A", b"X", b"LOOP", b"MAIN", b"Z", b"END1", b"P", b"", b"a", b"\xff\xfe", b"LABEL WITH SPACE", b"\xc3\xa9"];
    N[t.pick(N.len())].to_vec()
}

/// A structurally plausible binary object file with arbitrary field values and lying lengths.
fn gen_binary(t: &mut Tape) -> Vec<u8> {
    let mut b = b"obj\x21\x10\x00\x01".to_vec();
    if t.chance(1, 30) {
        b[t.pick(7)] ^= 1 << t.pick(8);
    }
    let n = t.pick(9);
    for _ in 0..n {
        let lie = |t: &mut Tape, len: u64| -> u64 {
            match t.pick(12) {
                0 => len.wrapping_add(1),
                1 => len.wrapping_sub(1),
                2 => u64::MAX,
                _ => len,
            }
        };
        match t.weighted(&[5, 4, 3, 2, 3, 1]) {
            0 => {
                b.push(0);
                let addr = interesting_u16(t);
                let len = match t.pick(6) {
                    0 => 0,
                    1 => 0xFFFF,
                    2 => 0x0200,
                    _ => t.pick(6) as u16,
                };
                b.extend(addr.to_le_bytes());
                let written = if len > 0x400 && t.chance(3, 4) { t.pick(4) as u16 } else { len };
                b.extend((lie(t, len as u64) as u16).to_le_bytes());
                for _ in 0..written {
                    b.push(*t.choose(&[0xFFu8, 0xFF, 0x00, 0x7F]));
                    b.extend(interesting_u16(t).to_le_bytes());
                }
            }
            1 => {
                b.push(1);
                b.extend(interesting_u16(t).to_le_bytes());
                b.push(*t.choose(&[0u8, 1, 1, 2]));
                b.extend(interesting_u64(t).to_le_bytes());
                let nm = name(t);
                b.extend(lie(t, nm.len() as u64).to_le_bytes());
                b.extend(nm);
            }
            2 => {
                b.push(2);
                b.extend(interesting_u64(t).to_le_bytes());
                let len = t.pick(5) as u16;
                b.extend((lie(t, len as u64) as u16).to_le_bytes());
                let mut a = interesting_u16(t);
                for _ in 0..len {
                    b.extend(a.to_le_bytes());
                    a = if t.chance(1, 6) { interesting_u16(t) } else { a.wrapping_add(1 + t.pick(3) as u16) };
                }
            }
            3 => {
                b.push(3);
                let src: &[u8] = *t.choose(&[&b""[..], b"\n", b".orig x3000\nHALT\n.end", b"a\r\nb\n\n", b"\xff", b"line1\nline2\nline3\nline4\nline5\n"]);
                b.extend(lie(t, src.len() as u64).to_le_bytes());
                b.extend(src);
            }
            4 => {
                b.push(4);
                b.extend(interesting_u16(t).to_le_bytes());
                let nm = name(t);
                b.extend(lie(t, nm.len() as u64).to_le_bytes());
                b.extend(nm);
            }
            _ => b.push(t.u8()),
        }
    }
    if t.chance(1, 8) {
        let k = t.pick(b.len() + 1);
        b.truncate(k);
    }
    b
}

fn hex4(t: &mut Tape) -> String {
    match t.pick(8) {
        0 => "????".into(),
        1 => "+123".into(),
        2 => "12".into(),
        3 => "éé".into(),
        4 => "GGGG".into(),
        _ => format!("{:04X}", interesting_u16(t)),
    }
}

/// A structurally plausible text object file: sections in any order, tables with odd rows, 0-3 dividers.
fn gen_text(t: &mut Tape) -> String {
    let mut s = String::new();
    if !t.chance(1, 30) {
        s.push_str("LC-3 OBJ FILE\n\n");
    }
    let nsec = t.pick(7);
    for _ in 0..nsec {
        match t.weighted(&[4, 3, 3, 5, 1]) {
            0 => {
                s.push_str(".TEXT\n");
                if t.chance(1, 25) {
                    // an oversize block: 65530-65580 word lines really present (the length field of the binary format
                    // and of the loader is 16 bits wide), starting at x0000 or elsewhere
                    let n = 65530 + t.pick(50);
                    let claimed = if t.chance(3, 4) { n } else { n + 1 };
                    s.push_str(&format!("{:04X}\n{claimed}\n", *t.choose(&[0u16, 0x3000, 0xFFFF])));
                    let holes = t.chance(1, 2);
                    for k in 0..n {
                        if holes && k % 1000 == 999 {
                            s.push_str("????\n");
                        } else {
                            s.push_str(&format!("{:04X}\n", k & 0xFFFF));
                        }
                    }
                }
                for _ in 0..t.pick(4) {
                    s.push_str(&format!("{}\n", hex4(t)));
                    let n = t.pick(5);
                    let claimed = match t.pick(8) {
                        0 => n + 1,
                        1 => 65535,
                        2 => 65536,
                        _ => n,
                    };
                    s.push_str(&format!("{claimed}\n"));
                    for _ in 0..n {
                        s.push_str(&format!("{}\n", hex4(t)));
                    }
                }
            }
            1 => {
                s.push_str(".SYMBOL\n");
                if t.chance(5, 6) {
                    s.push_str("ADDR | EXT | LABEL\n");
                }
                for _ in 0..t.pick(5) {
                    s.push_str(&format!("{} | {:>3} | {}\n", hex4(t), *t.choose(&["0", "1", "2", "x", "256", ""]), *t.choose(&["A", "X", "LOOP", "Z", "", "a b", "é", "A | B"])));
                }
            }
            2 => {
                s.push_str(".LINKER_INFO\n");
                if t.chance(5, 6) {
                    s.push_str("ADDR | LABEL\n");
                }
                for _ in 0..t.pick(4) {
                    s.push_str(&format!("{} | {}\n", hex4(t), *t.choose(&["A", "X", "LOOP", "NOPE", ""])));
                }
            }
            3 => {
                s.push_str(".DEBUG\n# DEBUG SYMBOLS FOR LC3TOOLS\n\n");
                let dividers = t.weighted(&[1, 3, 8, 2]);
                if t.chance(2, 3) {
                    s.push_str("LABEL | INDEX\n");
                    for _ in 0..t.pick(4) {
                        s.push_str(&format!("{} | {}\n", *t.choose(&["A", "X", "LOOP", "Q"]), *t.choose(&["0", "5", "99999999999999999999", "-1", "18446744073709551615", "x"])));
                    }
                }
                if dividers >= 1 {
                    s.push_str("====================\n");
                }
                if t.chance(3, 4) {
                    s.push_str("LINE | ADDR | SOURCE\n");
                    let mut ln = 0usize;
                    for _ in 0..t.pick(6) {
                        s.push_str(&format!("{:<4} | {} | {}\n", ln, hex4(t), *t.choose(&["HALT\\n", "", "a | b\\n", "\\", "\\u{110000}", "\\x", "x\\r\\n", "\\u{e9}"])));
                        ln = if t.chance(1, 8) { ln + 2 } else { ln + 1 };
                    }
                }
                if dividers >= 2 {
                    s.push_str("====================\n");
                }
                if dividers >= 3 {
                    s.push_str("====================\n");
                }
            }
            _ => {
                s.push_str(*t.choose(&[".UNKNOWN\n", "stray line\n", "\n", "# comment\n", ".TEXT", "====\n"]));
            }
        }
    }
    s
}

/// The library writes label and relocation chunks in HashMap iteration order, which differs
/// from map to map even inside one process.  To keep generation a pure function of the tape,
/// the chunks of a *valid* serialization are re-ordered canonically before mutation.
pub fn canonicalize_binary(b: &[u8]) -> Vec<u8> {
    fn rd(b: &[u8], p: usize, n: usize) -> Option<u64> {
        let s = b.get(p..p + n)?;
        let mut v = 0u64;
        for (i, x) in s.iter().enumerate() {
            v |= (*x as u64) << (8 * i);
        }
        Some(v)
    }
    let Some(body) = b.get(7..) else { return b.to_vec() };
    let mut chunks: Vec<(u8, Vec<u8>)> = vec![];
    let mut p = 0usize;
    while p < body.len() {
        let id = body[p];
        let len = match id {
            0 => rd(body, p + 3, 2).map(|n| 5 + 3 * n as usize),
            1 => rd(body, p + 12, 8).map(|n| 20 + n as usize),
            2 => rd(body, p + 9, 2).map(|n| 11 + 2 * n as usize),
            3 => rd(body, p + 1, 8).map(|n| 9 + n as usize),
            4 => rd(body, p + 3, 8).map(|n| 11 + n as usize),
            _ => None,
        };
        match len {
            Some(l) if p + l <= body.len() => {
                chunks.push((id, body[p..p + l].to_vec()));
                p += l;
            }
            _ => return b.to_vec(), // not a valid serialization: leave untouched
        }
    }
    chunks.sort_by(|x, y| (x.0, if matches!(x.0, 1 | 4) { &x.1[..] } else { &[][..] }).cmp(&(y.0, if matches!(y.0, 1 | 4) { &y.1[..] } else { &[][..] })));
    let mut out = b[..7].to_vec();
    for (_, c) in chunks {
        out.extend(c);
    }
    out
}

fn mutate_bytes(t: &mut Tape, mut b: Vec<u8>) -> Vec<u8> {
    for _ in 0..1 + t.pick(6) {
        if b.is_empty() {
            break;
        }
        let pos = t.pick(b.len());
        match t.pick(6) {
            0 => b[pos] ^= 1 << t.pick(8),
            1 => b[pos] = *t.choose(&[0u8, 1, 2, 3, 4, 0xFF, 0x7F, 0x80]),
            2 => {
                b.remove(pos);
            }
            3 => b.insert(pos, t.u8()),
            4 => b.truncate(pos),
            _ => {
                // overwrite a 2/8-byte field with an extreme value
                let v = interesting_u64(t).to_le_bytes();
                let n = if t.chance(1, 2) { 2 } else { 8 };
                for (i, x) in v.iter().take(n).enumerate() {
                    if pos + i < b.len() {
                        b[pos + i] = *x;
                    }
                }
            }
        }
    }
    b
}
fn mutate_text(t: &mut Tape, s: String) -> String {
    let mut lines: Vec<String> = s.split('\n').map(|x| x.to_string()).collect();
    for _ in 0..1 + t.pick(5) {
        if lines.is_empty() {
            break;
        }
        let pos = t.pick(lines.len());
        match t.pick(8) {
            0 => {
                lines.remove(pos);
            }
            1 => {
                let l = lines[pos].clone();
                lines.insert(pos, l);
            }
            2 => lines[pos] = hex4(t),
            3 => lines[pos] = "====================".into(),
            4 => lines.truncate(pos),
            5 => {
                let mut cs: Vec<char> = lines[pos].chars().collect();
                if !cs.is_empty() {
                    let p = t.pick(cs.len());
                    cs[p] = *t.choose(&['|', ' ', '0', 'F', '?', '\\', 'é', '=', '.', '#', '9']);
                }
                lines[pos] = cs.into_iter().collect();
            }
            6 => lines[pos] = format!("{} | {} | {}", t.pick(100000), hex4(t), "x\\n"),
            _ => lines.swap(pos, 0),
        }
    }
    lines.join("\n")
}

pub enum Input {
    Bin(Vec<u8>),
    Txt(String),
}

pub fn decode(tape: &[u32]) -> (Input, &'static str) {
    let mut t = Tape::new(tape);
    match t.weighted(&[4, 4, 3, 3, 1, 1]) {
        0 => (Input::Bin(gen_binary(&mut t)), "structured-binary"),
        1 => (Input::Txt(gen_text(&mut t)), "structured-text"),
        2 => match gen_object(&mut t) {
            Some(g) => (Input::Bin(mutate_bytes(&mut t, canonicalize_binary(&BinaryFormat::serialize(&g.obj)))), "mutated-binary"),
            None => (Input::Bin(vec![]), "mutated-binary"),
        },
        3 => match gen_object(&mut t) {
            Some(g) => (Input::Txt(mutate_text(&mut t, TextFormat::serialize(&g.obj))), "mutated-text"),
            None => (Input::Txt(String::new()), "mutated-text"),
        },
        4 => {
            let n = t.pick(64);
            (Input::Bin((0..n).map(|_| t.u8()).collect()), "random-bytes")
        }
        _ => {
            let n = t.pick(40);
            let mut s = String::from("LC-3 OBJ FILE\n");
            for _ in 0..n {
                s.push(*t.choose(&['.', 'T', 'E', 'X', '\n', ' ', '|', '0', 'F', '=', '?', '#', 'é']));
            }
            (Input::Txt(s), "random-text")
        }
    }
}

pub fn check(tape: &[u32], st: &mut Stats) -> Result<(), String> {
    let (input, kind) = decode(tape);
    st.class(&format!("gen:{kind}"));
    let accepted = match &input {
        Input::Bin(b) => oracle_binary(b)?,
        Input::Txt(s) => oracle_text(s)?,
    };
    if let Input::Txt(s) = &input {
        if s.len() > 300_000 {
            st.class(if accepted { "text-block-of-65530-65580-lines:accepted" } else { "text-block-of-65530-65580-lines:rejected" });
        }
    }
    if accepted {
        st.class(&format!("accepted:{kind}"));
        match &input {
            Input::Bin(b) => st.nontrivial(b),
            Input::Txt(s) => st.nontrivial(s),
        }
        if st.want_sample() && kind.starts_with("structured") {
            st.sample(describe_input(&input));
        }
    }
    Ok(())
}

fn describe_input(i: &Input) -> Value {
    match i {
        Input::Bin(b) => json!({"binary_hex": b.iter().map(|x| format!("{x:02x}")).collect::<String>()}),
        Input::Txt(s) => json!({"text": s}),
    }
}

pub fn describe(tape: &[u32]) -> Value {
    describe_input(&decode(tape).0)
}

pub fn run(ctx: &Ctx) -> Outcome {
    let mut out = Outcome::new(
        "structured binary files (chunks with arbitrary addresses, lying lengths, wrapping/overlapping/empty blocks, huge line numbers, relocation entries anywhere, invalid UTF-8, truncation), structured text files \
         (sections in any order, odd table rows, 0-3 dividers, bad escapes, wrong line numbers), byte/line mutations of valid serializations of generated object files, and raw random bytes/texts; \
         inside catch_unwind: deserialize; if Some: both serializers, re-deserialization, link with 6 pool files in both orders, load into a fresh simulator; non-trivial = input was accepted by deserialize; distinct by input",
    );
    let cfg = TapeCfg::new(ctx, 20_000, 400_000, 1500);
    out.shards = cfg.shards;
    out.absorb(tape_search(ctx, "main", &cfg, check, describe));
    if !out.failed() && ctx.tier == Tier::Thorough {
        for (target, text) in [("obj_binary", false), ("obj_text", true)] {
            let fr = libfuzzer(ctx, target, 800_000, 1024, 8);
            out.extra.insert(format!("libfuzzer_{target}_runs"), json!(fr.runs));
            if let Some(s) = fr.skipped {
                out.extra.insert("libfuzzer_skipped".into(), json!(s));
            }
            out.stats.evaluations += fr.runs;
            if let Some(bytes) = fr.crash {
                let (r, case) = if text {
                    let s = String::from_utf8_lossy(&bytes).to_string();
                    (oracle_text(&s).map(|_| ()), json!({"text": s}))
                } else {
                    (oracle_binary(&bytes).map(|_| ()), json!({"binary_hex": bytes.iter().map(|x| format!("{x:02x}")).collect::<String>()}))
                };
                if let Err(m) = r {
                    out.failure = Some(Failure { case: case.clone(), message: format!("(libFuzzer) {m}"), description: case });
                    break;
                }
            }
        }
    }
    out.essential = ["accepted:structured-binary", "accepted:structured-text", "accepted:mutated-binary", "accepted:mutated-text", "gen:random-bytes", "gen:random-text", "text-block-of-65530-65580-lines:rejected"].iter().map(|s| s.to_string()).collect();
    out
}

pub fn replay(_ctx: &Ctx, case: &Value, st: &mut Stats) -> Result<(), String> {
    if let Some(h) = case["binary_hex"].as_str() {
        let bytes: Vec<u8> = (0..h.len() / 2).map(|i| u8::from_str_radix(&h[2 * i..2 * i + 2], 16).unwrap_or(0)).collect();
        return oracle_binary(&bytes).map(|_| ());
    }
    if let Some(s) = case["text"].as_str() {
        return oracle_text(s).map(|_| ());
    }
    let tape: Vec<u32> = serde_json::from_value(case["tape"].clone()).map_err(|e| e.to_string())?;
    check(&tape, st)
}
