//! C07 — Every word disassembles to text that reassembles to the same word (exhaustive).
use crate::driver::*;
use crate::model::isa;
use lc3_ensemble::asm::assemble;
use lc3_ensemble::ast::asm::disassemble_line;
use lc3_ensemble::parse::parse_ast;
use serde_json::{json, Value};

fn alias_name(w: u16) -> Option<&'static str> {
    Some(match w {
        0xF020 => "GETC",
        0xF021 => "PUTC",
        0xF022 => "PUTS",
        0xF023 => "IN",
        0xF024 => "PUTSP",
        0xF025 => "HALT",
        0xC1C0 => "RET",
        _ => return None,
    })
}

pub fn check_word(w: u16, origin: u16) -> Result<(), String> {
    let text = disassemble_line(w).to_string();
    let is_fill = text.trim_start().to_ascii_lowercase().starts_with(".fill");
    let expect_fill = w < 0x0200 || isa::dec(w).is_err();
    if is_fill != expect_fill {
        return Err(format!("x{w:04X} disassembles to {text:?}; expected {}", if expect_fill { "a .fill (data word / non-instruction)" } else { "an instruction" }));
    }
    if let Some(name) = alias_name(w) {
        if text.trim() != name {
            return Err(format!("x{w:04X} disassembles to {text:?}; expected the alias {name}"));
        }
    }
    let src = format!(".orig x{origin:04X}\n{text}\n.end\n");
    let ast = parse_ast(&src).map_err(|e| format!("disassembly {text:?} of x{w:04X} does not parse: {e:?}"))?;
    let obj = assemble(ast).map_err(|e| format!("disassembly {text:?} of x{w:04X} does not assemble at x{origin:04X}: {e:?}"))?;
    let words: Vec<_> = obj.addr_iter().collect();
    if words != vec![(origin, Some(w))] {
        return Err(format!("x{w:04X} -> {text:?} -> reassembled at x{origin:04X} gives {words:?}"));
    }
    Ok(())
}

pub fn run(ctx: &Ctx) -> Outcome {
    let mut out = Outcome::new(
        "exhaustive: all 65536 words x origins {x0000, x3000, xFDFF, one seeded}; disassemble_line -> text -> parse -> assemble must give back the word; \
         '.fill' exactly for words < x0200 and non-canonical words; aliases printed by name; non-trivial = word is an alias, < x0200, non-canonical, or has a negative/extreme offset field",
    );
    out.exhaustive = true;
    out.shards = 16;
    let extra = 0x0200 + (derive_seed(ctx.seed, "C07-origin", 0) % 0xFB00) as u16;
    let origins = [0x0000u16, 0x3000, 0xFDFF, extra];
    out.extra.insert("origins".into(), json!(origins.iter().map(|o| format!("x{o:04X}")).collect::<Vec<_>>()));
    let r = par_enumerate(65536, 16, |i, st| {
        let w = i as u16;
        let canonical = isa::dec(w).is_ok();
        let interesting = alias_name(w).is_some() || w < 0x200 || !canonical || (w & 0x1FF == 0x100) || (w & 0x1F == 0x10);
        if interesting {
            st.nontrivial(&w);
            st.class(if alias_name(w).is_some() { "alias" } else if w < 0x200 { "below-x0200" } else if !canonical { "non-canonical" } else { "extreme-offset" });
            if w % 5003 == 11 {
                st.sample(json!(format!("x{w:04X} -> {:?}", disassemble_line(w).to_string())));
            }
        }
        st.evaluations += origins.len() as u64 - 1;
        for &o in &origins {
            check_word(w, o).map_err(|m| Failure { case: json!({"word": w, "origin": o}), message: m, description: json!(format!("word x{w:04X} at x{o:04X}")) })?;
        }
        Ok(())
    });
    out.absorb(r);
    out.essential = vec!["alias".into(), "below-x0200".into(), "non-canonical".into()];
    out
}

pub fn replay(_ctx: &Ctx, case: &Value, _st: &mut Stats) -> Result<(), String> {
    let w = case["word"].as_u64().ok_or("bad case")? as u16;
    let o = case["origin"].as_u64().ok_or("bad case")? as u16;
    check_word(w, o)
}
