//! C26 — Assembler and linker error spans are well-formed.
use crate::driver::*;
use crate::model::asm::{asm_model, ErrClass};
use crate::model::stmt::*;
use crate::props::c02;
use crate::tape::Tape;
use lc3_ensemble::asm::{assemble_debug, AsmErr, ObjectFile};
use lc3_ensemble::err::Error as _;
use serde_json::{json, Value};

/// Queries every span accessor of an error; returns the spans.
fn spans_of(e: &AsmErr, what: &str) -> Result<Vec<std::ops::Range<usize>>, String> {
    let sp = no_panic(&format!("{what}: err.span()"), || e.span())?.ok_or_else(|| format!("{what}: error {:?} carries no span list", e.kind))?;
    let first = no_panic(&format!("{what}: ErrSpan::first() of {:?}", e.kind), || sp.first())?;
    let all: Vec<_> = no_panic(&format!("{what}: ErrSpan::iter()"), || sp.iter().cloned().collect())?;
    // (agreement of first() with iter() is only meaningful for a non-empty list; the property
    //  itself only demands that both can be queried without panicking)
    if !all.is_empty() && all.first() != Some(&first) {
        return Err(format!("{what}: first() = {first:?} but iter() starts with {:?}", all.first()));
    }
    let _ = no_panic("help/display", || (e.help().map(|h| h.to_string()), e.to_string()))?;
    Ok(all)
}

fn check_asm(prog: &[MStmt], layout: &[StmtLayout], text: &str, st: &mut Stats) -> Result<(), String> {
    let model = asm_model(prog);
    let Some(real) = to_real_all(prog, layout) else {
        st.class("unconstructible");
        return Ok(());
    };
    let Err(e) = no_panic("assemble_debug", || assemble_debug(real, text))? else {
        st.class("asm-accepted");
        return Ok(());
    };
    st.class(&format!("asm-error:{:?}", c02::class_of(&e.kind)));
    let spans = spans_of(&e, "assemble")?;
    for s in &spans {
        if !(s.start <= s.end && s.end <= text.len()) {
            return Err(format!("assemble: error {:?} has span {s:?} outside the source (len {})", e.kind, text.len()));
        }
        if !text.is_char_boundary(s.start) || !text.is_char_boundary(s.end) {
            return Err(format!("assemble: error {:?} has span {s:?} that splits a character", e.kind));
        }
    }
    let label_err = matches!(
        c02::class_of(&e.kind),
        ErrClass::OverlappingLabels | ErrClass::UndetAddrLabel | ErrClass::CouldNotFindLabel | ErrClass::OffsetExternal | ErrClass::OffsetNewErr
    );
    if label_err {
        // every span of a label error is an occurrence of an offending label
        let bad: Vec<_> = spans.iter().filter(|s| !model.offending_labels.contains(&text[(*s).clone()].to_uppercase())).collect();
        if !bad.is_empty() || spans.is_empty() {
            return Err(format!(
                "assemble: label error {:?} has spans {:?} (texts {:?}); {:?} do not cover a spelling of an offending label {:?}",
                e.kind,
                spans,
                spans.iter().map(|s| &text[s.clone()]).collect::<Vec<_>>(),
                bad,
                model.offending_labels
            ));
        }
        st.class("label-error-covered");
    }
    Ok(())
}

/// Builds pairs of object files whose link must fail, and queries the error's spans.
fn check_link(t: &mut Tape, st: &mut Stats) -> Result<(), String> {
    use crate::gen::prog::{gen_wellformed, ProgCfg};
    let (prog, _) = gen_wellformed(t, &ProgCfg { max_blocks: 2, max_stmts: 8, externals: false, big: false, external_inside: false, wild_strings: false, huge: false });
    let r = render(&prog, t, RenderOpts { plain: true, wild_comments: false });
    let Some(real) = to_real_all(&prog, &r.layout) else { return Ok(()) };
    let Ok(a) = assemble_debug(real, &r.text) else { return Ok(()) };
    // second file: same program, origins shifted by `delta`
    let delta = *t.choose(&[0i32, 1, -1, 0x100, 0x1000, -0x800]);
    let prog_b: Vec<MStmt> = prog
        .iter()
        .map(|s| match s.kind {
            MKind::Orig(o) => MStmt { labels: s.labels.clone(), kind: MKind::Orig((o + delta).clamp(0, 0xFFFF)) },
            _ => s.clone(),
        })
        .collect();
    let rb = render(&prog_b, t, RenderOpts { plain: true, wild_comments: false });
    let Some(real_b) = to_real_all(&prog_b, &rb.layout) else { return Ok(()) };
    let Ok(b) = assemble_debug(real_b, &rb.text) else {
        st.class("link-second-file-illformed");
        return Ok(());
    };
    let (x, y) = if t.chance(1, 2) { (a, b) } else { (b, a) };
    match no_panic("ObjectFile::link", || ObjectFile::link(x, y))? {
        Ok(_) => {
            st.class("link-succeeded");
        }
        Err(e) => {
            st.class(&format!("link-error:{:?}", c02::class_of(&e.kind)));
            spans_of(&e, "link")?;
        }
    }
    Ok(())
}

pub fn check(tape: &[u32], st: &mut Stats) -> Result<(), String> {
    let mut t = Tape::new(tape);
    if t.chance(1, 4) {
        st.nontrivial(tape);
        return check_link(&mut t, st);
    }
    // half of the sources in free layout: error spans at the very end of a text without final newline, CRLF offsets
    let free = tape.first().is_some_and(|x| x & 1 == 1);
    let c = c02::decode_opts(&tape[1.min(tape.len())..], !free);
    if c.rendered.features.contains("no-final-newline") {
        st.class("source-without-final-newline");
    }
    let model = asm_model(&c.prog);
    if !model.ok() {
        st.nontrivial(&c.prog);
        if st.want_sample() {
            st.sample(json!({"source": c.rendered.text, "violated": format!("{:?}", model.violations)}));
        }
    }
    // one source in twelve starts with a comment line of more than 64 KiB: every position that follows needs more than 16 bits
    let mut text = c.rendered.text.clone();
    let mut layout = c.rendered.layout.clone();
    if tape.first().is_some_and(|x| (x >> 1) % 12 == 0) {
        let pad = format!("; {}\n", "-".repeat(65_600 + (tape[0] as usize >> 8) % 3000));
        let n = pad.len();
        for l in layout.iter_mut() {
            l.nucleus = l.nucleus.start + n..l.nucleus.end + n;
            for x in l.labels.iter_mut() {
                *x = x.start + n..x.end + n;
            }
            if let Some(o) = l.operand_label.as_mut() {
                *o = o.start + n..o.end + n;
            }
            l.line += 1;
        }
        text = pad + &text;
        st.class("source-longer-than-64KiB");
    }
    check_asm(&c.prog, &layout, &text, st)
}

pub fn describe(tape: &[u32]) -> Value {
    let mut t = Tape::new(tape);
    if t.chance(1, 4) {
        return json!({"kind": "link of a generated file with an origin-shifted copy of itself"});
    }
    let free = tape.first().is_some_and(|x| x & 1 == 1);
    let c = c02::decode_opts(&tape[1.min(tape.len())..], !free);
    let m = asm_model(&c.prog);
    json!({ "source": c.rendered.text, "faults": c.faults, "violated_conditions": format!("{:?}", m.violations) })
}

pub fn run(ctx: &Ctx) -> Outcome {
    let mut out = Outcome::new(
        "the faulty programs of C02 (fault catalogue + soup) assembled with assemble_debug, and failing links (a generated file linked with an origin-shifted copy: identical, overlapping and label-conflicting blocks); \
         every error: span() is Some, first() and iter() do not panic and agree; for assembly every span lies inside the source on character boundaries, and for label errors some span's text is a spelling of an offending label (model); \
         non-trivial = an error was produced or a link attempted; distinct by statement list / tape",
    );
    let cfg = TapeCfg::new(ctx, 6000, 150_000, 2500);
    out.shards = cfg.shards;
    out.absorb(tape_search(ctx, "main", &cfg, check, describe));
    out.essential = [
        "asm-error:OverlappingLabels", "asm-error:UndetAddrLabel", "asm-error:CouldNotFindLabel", "asm-error:OffsetExternal", "asm-error:OffsetNewErr",
        "asm-error:OverlappingBlocks", "asm-error:BlockInIO", "label-error-covered", "link-error:OverlappingBlocks", "link-error:OverlappingLabels", "source-without-final-newline", "source-longer-than-64KiB", "asm-error:UnclosedOrig",
    ]
    .iter()
    .map(|s| s.to_string())
    .collect();
    out
}

pub fn replay(_ctx: &Ctx, case: &Value, st: &mut Stats) -> Result<(), String> {
    if let Some(src) = case["source"].as_str() {
        let (prog, layout) = parse_source(src)?;
        return check_asm(&prog, &layout, src, st);
    }
    if let (Some(a), Some(b)) = (case["link_a"].as_str(), case["link_b"].as_str()) {
        let oa = assemble_debug(lc3_ensemble::parse::parse_ast(a).map_err(|e| format!("{e:?}"))?, a).map_err(|e| format!("{e:?}"))?;
        let ob = assemble_debug(lc3_ensemble::parse::parse_ast(b).map_err(|e| format!("{e:?}"))?, b).map_err(|e| format!("{e:?}"))?;
        return match no_panic("ObjectFile::link", || ObjectFile::link(oa, ob))? {
            Ok(_) => Ok(()),
            Err(e) => spans_of(&e, "link").map(|_| ()),
        };
    }
    let tape: Vec<u32> = serde_json::from_value(case["tape"].clone()).map_err(|e| e.to_string())?;
    check(&tape, st)
}
