//! C16 — No machine state makes the simulator panic.
use crate::driver::*;
use crate::props::simrig::*;
use crate::tape::Tape;
use lc3_ensemble::sim::mem::MachineInitStrategy;
use lc3_ensemble::sim::SimErr;
use serde_json::{json, Value};

#[derive(Clone, Debug)]
pub enum Op {
    StepIn,
    RunLimit(u64),
    StepOver,
    StepOut,
    Run,
}

pub fn decode(tape: &[u32]) -> (StateCase, Vec<Op>) {
    let mut t = Tape::new(tape);
    let mut c = gen_state(&mut t, true);
    // whole memory random (Seeded) most of the time
    if t.chance(3, 4) {
        c.spec.init = MachineInitStrategy::Seeded { seed: t.raw() as u64 };
    }
    if t.chance(1, 3) {
        c.spec.pc = *t.choose(&[0xFFFFu16, 0xFFFE, 0x0000, 0x00FF, 0x0100, 0x01FF, 0x0200, 0x2FFF, 0x3000, 0xFDFF, 0xFE00, 0xFEFF, 0xFF00]);
    }
    c.spec.fuse = 3000;
    let n = 1 + t.pick(8);
    let ops = (0..n)
        .map(|_| match t.weighted(&[5, 3, 2, 2, 1]) {
            0 => Op::StepIn,
            1 => Op::RunLimit(t.pick(200) as u64),
            2 => Op::StepOver,
            3 => Op::StepOut,
            _ => Op::Run,
        })
        .collect();
    let mut ops: Vec<Op> = ops;
    // deep call chain (read last: earlier tapes decode as before): N x `JSR #0` in a row, then a RET that returns
    // to itself and so pops one frame per step - the frame stack goes to depth N and all the way down again
    if t.chance(1, 6) {
        let n = 100 + t.pick(220);
        let at = *t.choose(&[0x4000u16, 0x3000, 0x0400]);
        for i in 0..n {
            c.spec.overlay.push((at + i as u16, 0x4800));
        }
        c.spec.overlay.push((at + n as u16, 0xC1C0));
        c.spec.pc = at;
        if at < 0x3000 {
            c.spec.psr &= 0x7FFF;
        }
        c.spec.kbd_ie = false;
        for p in c.plan.iter_mut() {
            *p = None;
        }
        ops.insert(0, Op::RunLimit((2 * n + t.pick(40)) as u64));
    }
    (c, ops)
}

/// Runs the operations; any unwind is a violation. Shared with the fuzz target `sim_state`.
pub fn oracle(c: &StateCase, ops: &[Op], st: &mut Stats) -> Result<(), String> {
    let r = no_panic("simulator", || {
        let mut rig = build_rig(&c.spec);
        let mut plan = c.plan.clone().into_iter();
        let mut executed = 0u64;
        let mut flags = (false, false, false);
        for op in ops {
            rig.plan.lock().unwrap().extend(plan.by_ref().take(3));
            let before = rig.sim.instructions_run;
            let res = match op {
                Op::StepIn => rig.sim.step_in(),
                Op::RunLimit(n) => rig.sim.run_with_limit(*n),
                Op::StepOver => rig.sim.step_over(),
                Op::StepOut => rig.sim.step_out(),
                Op::Run => rig.sim.run(),
            };
            executed += rig.sim.instructions_run.wrapping_sub(before);
            let p = rig.sim.prefetch_pc();
            let _ = (rig.sim.hit_halt(), rig.sim.hit_breakpoint(), rig.sim.frame_stack.len(), p);
            if rig.sim.pc < 0x0200 {
                flags.0 = true;
            }
            if rig.sim.pc >= 0xFE00 {
                flags.1 = true;
            }
            match res {
                Ok(()) => {}
                Err(SimErr::Interrupt(_)) => {
                    // fuse blown: refill so that later ops can run a little
                    rig.fuse.store(300, std::sync::atomic::Ordering::Relaxed);
                }
                Err(e) => {
                    flags.2 = true;
                    let _ = format!("{e} {e:?}");
                }
            }
        }
        (executed, flags)
    })?;
    let (executed, (low, io, err)) = r;
    if executed >= 1 {
        st.class("executed");
    }
    if low {
        st.class("pc-in-vector-tables");
    }
    if io {
        st.class("pc-in-io-page");
    }
    if err {
        st.class("sim-error-reported");
    }
    if c.spec.strict {
        st.class("strict");
    }
    if c.spec.overlay.iter().filter(|(_, w)| *w == 0x4800).count() >= 100 {
        st.class(if c.spec.debug_frames { "deep-call-chain:debug-frames" } else { "deep-call-chain" });
    }
    if c.spec.real_traps {
        st.class("real-traps");
    }
    Ok(())
}

pub fn check(tape: &[u32], st: &mut Stats) -> Result<(), String> {
    let (c, ops) = decode(tape);
    let mut local = Stats::default();
    oracle(&c, &ops, &mut local)?;
    let nt = local.classes.contains_key("executed") && (local.classes.contains_key("pc-in-vector-tables") || local.classes.contains_key("pc-in-io-page") || local.classes.contains_key("sim-error-reported"));
    for (k, v) in local.classes {
        st.class_n(&k, v);
    }
    if nt {
        st.nontrivial(tape);
        if st.want_sample() {
            let mut d = describe_state(&c);
            d["ops"] = json!(format!("{ops:?}"));
            st.sample(d);
        }
    }
    Ok(())
}

pub fn describe(tape: &[u32]) -> Value {
    let (c, ops) = decode(tape);
    let mut d = describe_state(&c);
    d["ops"] = json!(format!("{ops:?}"));
    d["state_json"] = case_to_json(&c);
    d
}

pub fn run(ctx: &Ctx) -> Outcome {
    let mut out = Outcome::new(
        "Seeded machines (whole memory and registers random, some registers left uninitialised, optional loaded .blkw block) overlaid with the C08 state generator, all flag combinations incl. strict and real traps, \
         PC at every page boundary and xFFFF, keyboard/display/interrupt-source devices, extra internal-register mappings, scheduled interrupts, and in 1/6 of the cases a chain of 100-320 nested calls that is unwound completely; then 1-8 of step_in/run_with_limit(<=200)/step_over/step_out/run (a harness fuse device stops runaway runs with an external interrupt), \
         prefetch_pc/hit_halt/hit_breakpoint after each; oracle: no unwind anywhere, failures surface as SimErr; non-trivial = >=1 instruction executed and (PC reached the vector tables or the I/O page, or a SimErr was reported); distinct by tape",
    );
    let cfg = TapeCfg::new(ctx, 3000, 150_000, 400);
    out.shards = cfg.shards;
    out.absorb(tape_search(ctx, "main", &cfg, check, describe));
    if !out.failed() && ctx.tier == Tier::Thorough {
        let fr = libfuzzer(ctx, "sim_state", 160_000, 1600, 8);
        out.extra.insert("libfuzzer_sim_state_runs".into(), json!(fr.runs));
        if let Some(s) = fr.skipped {
            out.extra.insert("libfuzzer_skipped".into(), json!(s));
        }
        out.stats.evaluations += fr.runs;
        if let Some(bytes) = fr.crash {
            let tape: Vec<u32> = bytes.chunks(4).map(|c| { let mut b = [0u8; 4]; b[..c.len()].copy_from_slice(c); u32::from_le_bytes(b) }).collect();
            let (c, ops) = decode(&tape);
            if let Err(m) = oracle(&c, &ops, &mut Stats::default()) {
                out.failure = Some(Failure { case: json!({"tape": tape}), message: format!("(libFuzzer) {m}"), description: describe(&tape) });
            }
        }
    }
    out.essential = ["executed", "pc-in-vector-tables", "pc-in-io-page", "sim-error-reported", "strict", "real-traps", "deep-call-chain", "deep-call-chain:debug-frames"].iter().map(|s| s.to_string()).collect();
    out
}

pub fn replay(_ctx: &Ctx, case: &Value, st: &mut Stats) -> Result<(), String> {
    if case.get("state").is_some() {
        let c = case_from_json(&case["state"])?;
        let ops: Vec<Op> = case["ops"].as_array().cloned().unwrap_or_default().iter().map(|o| match o.as_str() {
            Some("step_over") => Op::StepOver,
            Some("step_out") => Op::StepOut,
            Some("run") => Op::Run,
            Some(x) if x.starts_with("run_limit:") => Op::RunLimit(x[10..].parse().unwrap_or(10)),
            _ => Op::StepIn,
        }).collect();
        return oracle(&c, &ops, st);
    }
    let tape: Vec<u32> = serde_json::from_value(case["tape"].clone()).map_err(|e| e.to_string())?;
    check(&tape, st)
}
