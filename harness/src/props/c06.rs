//! C06 — Instruction decoding is the exact inverse of encoding (exhaustive).
use crate::driver::*;
use crate::model::isa::{self, DecErr, MInstr};
use lc3_ensemble::ast::sim::SimInstr;
use lc3_ensemble::sim::SimErr;
use serde_json::{json, Value};

pub fn check_word(w: u16) -> Result<(), String> {
    let model = isa::dec(w);
    let real = SimInstr::decode(w);
    match (&model, &real) {
        (Ok(m), Ok(r)) => {
            let got = isa::from_real(r);
            if got != *m {
                return Err(format!("decode(x{w:04X}) = {r:?}, reference decoder says {m:?}"));
            }
            let back = r.encode();
            if back != w {
                return Err(format!("decode(x{w:04X}) = {r:?} re-encodes to x{back:04X}"));
            }
            if isa::enc(m) != w {
                return Err(format!("reference encoder disagrees with itself on x{w:04X} (harness bug)"));
            }
        }
        (Err(DecErr::Illegal), Err(SimErr::IllegalOpcode)) => {}
        (Err(DecErr::Format), Err(SimErr::InvalidInstrFormat)) => {}
        (Ok(m), Err(e)) => return Err(format!("decode(x{w:04X}) rejected with {e:?}, but it is the canonical encoding of {m:?}")),
        (Err(k), Ok(r)) => return Err(format!("decode(x{w:04X}) accepted as {r:?}, but the word is not canonical ({k:?})")),
        (Err(k), Err(e)) => return Err(format!("decode(x{w:04X}) rejected with {e:?}, expected the {k:?} class")),
    }
    Ok(())
}

pub fn check_instr(m: &MInstr) -> Result<(), String> {
    let real = isa::to_real(m).ok_or_else(|| format!("cannot construct {m:?} through the public constructors"))?;
    let w = real.encode();
    let expect = isa::enc(m);
    if w != expect {
        return Err(format!("{real:?}.encode() = x{w:04X}, ISA encoding is x{expect:04X}"));
    }
    match SimInstr::decode(w) {
        Ok(d) if d == real => Ok(()),
        Ok(d) => Err(format!("decode(encode({real:?})) = {d:?}")),
        Err(e) => Err(format!("decode(encode({real:?})) failed: {e:?}")),
    }
}

fn special_format(w: u16) -> bool {
    // formats with must-be-zero bits, fixed suffixes or the reserved opcode
    matches!(w >> 12, 0x1 | 0x5 | 0x4 | 0x8 | 0x9 | 0xC | 0xD | 0xF)
}

pub fn run(_ctx: &Ctx) -> Outcome {
    let mut out = Outcome::new(
        "exhaustive: all 65536 words through decode (compared with an independent canonical decoder, error class included, re-encode == word) \
         and all representable instructions through encode (== ISA table encoder) then decode (== instruction); \
         non-trivial = word whose opcode has must-be-zero bits, a fixed suffix or is reserved (ADD/AND/JSR(R)/RTI/NOT/JMP/TRAP/1101), and every instruction value",
    );
    out.exhaustive = true;
    out.shards = 16;
    let r = par_enumerate(65536, 16, |i, st| {
        let w = i as u16;
        if special_format(w) {
            st.nontrivial(&("w", w));
            st.class(match isa::dec(w) {
                Ok(_) => "word-special-canonical",
                Err(DecErr::Illegal) => "word-reserved-opcode",
                Err(DecErr::Format) => "word-noncanonical",
            });
            if w % 4099 == 7 {
                st.sample(json!(format!("word x{w:04X} -> {:?}", isa::dec(w))));
            }
        } else {
            st.class("word-free-format");
        }
        check_word(w).map_err(|m| Failure { case: json!({"word": w}), message: m, description: json!(format!("x{w:04X}")) })
    });
    out.absorb(r);
    if !out.failed() {
        let instrs = isa::all_instrs();
        let n = instrs.len() as u64;
        let r = par_enumerate(n, 16, |i, st| {
            let m = &instrs[i as usize];
            st.nontrivial(&("i", *m));
            st.class("instruction");
            if i % 9001 == 5 {
                st.sample(json!(format!("{m:?} -> x{:04X}", isa::enc(m))));
            }
            check_instr(m).map_err(|msg| Failure { case: json!({"instr_index": i}), message: msg, description: json!(format!("{m:?}")) })
        });
        out.absorb(r);
    }
    out.essential = vec!["word-reserved-opcode".into(), "word-noncanonical".into(), "instruction".into()];
    out
}

pub fn replay(_ctx: &Ctx, case: &Value, _st: &mut Stats) -> Result<(), String> {
    if let Some(w) = case["word"].as_u64() {
        return check_word(w as u16);
    }
    if let Some(i) = case["instr_index"].as_u64() {
        let instrs = isa::all_instrs();
        return check_instr(instrs.get(i as usize).ok_or("index out of range")?);
    }
    Err("bad case".into())
}
