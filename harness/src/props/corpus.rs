//! Deterministic generation of the small committed seed corpora for the libFuzzer targets.
use crate::props::{c04, c16, c19, objgen};
use crate::tape::Tape;
use lc3_ensemble::asm::encoding::{BinaryFormat, ObjFileFormat, TextFormat};
use std::path::Path;

fn tapes(n: usize, len: usize, salt: u64) -> Vec<Vec<u32>> {
    (0..n)
        .map(|i| {
            let mut x = crate::driver::derive_seed(salt, "corpus", i as u64);
            (0..len)
                .map(|_| {
                    x = x.wrapping_mul(6364136223846793005).wrapping_add(1442695040888963407);
                    (x >> 32) as u32
                })
                .collect()
        })
        .collect()
}

pub fn generate(dir: &Path) {
    let w = |sub: &str, name: String, data: &[u8]| {
        let d = dir.join(sub);
        std::fs::create_dir_all(&d).unwrap();
        std::fs::write(d.join(name), data).unwrap();
    };
    // parse_text: the literals of the pinned test suite + generated inputs
    let lits = [
        ".orig x3000\nAND R0, R0, #0\nADD R0, R0, #7\nHALT\n.end\n",
        "LABEL1 LABEL2 LABEL3 NOT R0, R0\n",
        ".orig x3000\nLOOP:\nGETC\nPUTC\nADD R0, R0, #0\nBRnp LOOP\nHALT\n.end\n",
        ".stringz \"Hello!\\n\\t\\\\ \\\"q\\\" \\e\"\n",
        ".external X\n.orig x3000\n.fill X\n.blkw 3\nTRAP x25\n.end ; c\r\n",
        "x-9 x-1234 #-300 R7 r0 .fill -1 \"",
    ];
    for (i, l) in lits.iter().enumerate() {
        w("parse_text", format!("lit{i}"), l.as_bytes());
    }
    for (i, t) in tapes(12, 300, 1).iter().enumerate() {
        let (s, _) = c04::decode(t);
        if s.len() < 600 {
            w("parse_text", format!("gen{i}"), s.as_bytes());
        }
    }
    // object files
    let mut k = 0;
    for t in tapes(40, 1500, 2) {
        let mut tp = Tape::new(&t);
        if let Some(g) = objgen::gen_object(&mut tp) {
            let b = c19::canonicalize_binary(&BinaryFormat::serialize(&g.obj));
            let x = TextFormat::serialize(&g.obj);
            if b.len() < 900 && x.len() < 1000 {
                w("obj_binary", format!("valid{k}"), &b);
                w("obj_text", format!("valid{k}"), x.as_bytes());
                k += 1;
            }
        }
        if k >= 8 {
            break;
        }
    }
    for (i, t) in tapes(10, 200, 3).iter().enumerate() {
        match c19::decode(t).0 {
            c19::Input::Bin(b) => w("obj_binary", format!("gen{i}"), &b),
            c19::Input::Txt(s) => w("obj_text", format!("gen{i}"), s.as_bytes()),
        }
    }
    // sim_state: raw tapes
    for (i, t) in tapes(10, 200, 4).iter().enumerate() {
        let _ = c16::decode(t);
        let bytes: Vec<u8> = t.iter().flat_map(|x| x.to_le_bytes()).collect();
        w("sim_state", format!("tape{i}"), &bytes);
    }
}
