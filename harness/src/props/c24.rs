//! C24 — Line-to-address debug mapping is one-to-one.
use crate::driver::*;
use crate::gen::prog::{gen_wellformed, ProgCfg};
use crate::model::asm::{asm_model, line_map};
use crate::model::stmt::*;
use crate::tape::Tape;
use lc3_ensemble::asm::assemble_debug;
use serde_json::{json, Value};
use std::collections::{BTreeMap, BTreeSet};

fn decode(tape: &[u32]) -> (Vec<MStmt>, Rendered) {
    let mut t = Tape::new(tape);
    let (prog, _) = gen_wellformed(&mut t, &ProgCfg { max_stmts: 25, ..ProgCfg::default() });
    let rendered = render(&prog, &mut t, RenderOpts { plain: false, wild_comments: true });
    (prog, rendered)
}

pub fn check(tape: &[u32], st: &mut Stats) -> Result<(), String> {
    let (prog, rendered) = decode(tape);
    check_prog(&prog, &rendered.layout, &rendered.text, &rendered.features, st)
}

pub fn check_prog(prog: &[MStmt], layout: &[StmtLayout], text: &str, features: &BTreeSet<&'static str>, st: &mut Stats) -> Result<(), String> {
    struct L<'a> { layout: &'a [StmtLayout], text: &'a str, features: &'a BTreeSet<&'static str> }
    let rendered = L { layout, text, features };
    let model = asm_model(prog);
    if !model.ok() {
        st.class("generator-illformed");
        return Ok(());
    }
    let Some(real) = to_real_all(prog, rendered.layout) else {
        st.class("generator-unconstructible");
        return Ok(());
    };
    let text = rendered.text;
    let obj = assemble_debug(real, text).map_err(|e| format!("assemble_debug rejected a well-formed program: {:?}", e.kind))?;
    let sym = obj.symbol_table().ok_or("no symbol table")?;
    let want: BTreeMap<usize, u16> = line_map(&model, rendered.layout);

    let mut got: BTreeMap<usize, u16> = BTreeMap::new();
    let mut seen_addr: BTreeSet<u16> = BTreeSet::new();
    for (l, a) in sym.line_iter() {
        if got.insert(l, a).is_some() {
            return Err(format!("line {l} is listed twice in the line mapping"));
        }
        if !seen_addr.insert(a) {
            return Err(format!("address x{a:04X} is mapped from two lines (second: line {l}: {:?})", text.split('\n').nth(l)));
        }
    }
    if got != want {
        for (l, a) in &want {
            if got.get(l) != Some(a) {
                return Err(format!("line {l} ({:?}) should map to x{a:04X}, mapping has {:?}", text.split('\n').nth(*l), got.get(l)));
            }
        }
        for (l, a) in &got {
            if !want.contains_key(l) {
                return Err(format!("line {l} ({:?}) holds no statement that occupies memory but maps to x{a:04X}", text.split('\n').nth(*l)));
            }
        }
    }
    let nlines = text.matches('\n').count() + 1;
    for l in 0..nlines + 3 {
        let r = sym.lookup_line(l);
        if r != want.get(&l).copied() {
            return Err(format!("lookup_line({l}) = {r:?}, expected {:?}", want.get(&l)));
        }
    }
    let first_words: BTreeMap<u16, usize> = want.iter().map(|(l, a)| (*a, *l)).collect();
    for (a, _) in &model.image {
        let r = sym.rev_lookup_line(*a);
        if r != first_words.get(a).copied() {
            return Err(format!("rev_lookup_line(x{a:04X}) = {r:?}, expected {:?}", first_words.get(a)));
        }
    }
    // classification
    let f = rendered.features;
    let ext_inside = {
        let mut inside = false;
        let mut any = false;
        for s in prog {
            match s.kind {
                MKind::Orig(_) => inside = true,
                MKind::End => inside = false,
                MKind::External(_) if inside => any = true,
                _ => {}
            }
        }
        any
    };
    if ext_inside {
        st.class("external-inside-block");
    }
    if f.contains("label-own-line") {
        st.class("label-own-line");
    }
    if f.contains("crlf") {
        st.class("crlf");
    }
    if prog.iter().any(|s| matches!(s.kind, MKind::Blkw(n) if n > 1) || matches!(&s.kind, MKind::Stringz(x) if !x.is_empty())) {
        st.class("multiword-statement");
    }
    if ext_inside || f.contains("label-own-line") {
        st.nontrivial(text);
        if st.want_sample() {
            st.sample(json!({"source": text, "line_map": want.iter().map(|(l, a)| format!("{l}->x{a:04X}")).collect::<Vec<_>>() }));
        }
    }
    Ok(())
}

pub fn describe(tape: &[u32]) -> Value {
    json!({ "source": decode(tape).1.text })
}

pub fn run(ctx: &Ctx) -> Outcome {
    let mut out = Outcome::new(
        "well-formed generated programs rendered with label-only lines, comments, blank lines, CRLF, big .blkw/.stringz and .external inside and outside blocks, assembled with debug symbols; \
         line_iter as a map == model (line of nucleus -> first word) for sized statements only, injective, lookup_line/rev_lookup_line inverse on it, None for every other line (0..count+2) and every non-first word; \
         non-trivial = program has a label-only line or an .external inside a block; distinct by source text",
    );
    let cfg = TapeCfg::new(ctx, 4000, 100_000, 3000);
    out.shards = cfg.shards;
    out.absorb(tape_search(ctx, "main", &cfg, check, describe));
    out.essential = vec!["external-inside-block".into(), "label-own-line".into(), "crlf".into(), "multiword-statement".into()];
    out.forbidden = vec!["generator-illformed".into(), "generator-unconstructible".into()];
    out
}

pub fn replay(_ctx: &Ctx, case: &Value, st: &mut Stats) -> Result<(), String> {
    if let Some(src) = case["source"].as_str() {
        let (prog, layout) = parse_source(src)?;
        return check_prog(&prog, &layout, src, &BTreeSet::new(), st);
    }
    let tape: Vec<u32> = serde_json::from_value(case["tape"].clone()).map_err(|e| e.to_string())?;
    check(&tape, st)
}
