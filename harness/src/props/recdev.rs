//! Recording device used by C30 / C32: logs every call, answers reads with a value derived from its tag.
use lc3_ensemble::sim::device::{ExternalDevice, Interrupt};
use std::sync::{Arc, Mutex};

#[derive(Clone, Debug, PartialEq, Eq)]
pub enum Ev {
    Read(u16, bool),
    Write(u16, u16),
    Reset,
}
pub type Log = Arc<Mutex<Vec<(u16, Ev)>>>;

pub struct RecDev {
    pub tag: u16,
    pub log: Log,
    /// whether writes are accepted
    pub accept: bool,
}
impl RecDev {
    pub fn value(tag: u16, addr: u16) -> u16 {
        tag.wrapping_mul(0x0101) ^ addr.rotate_left(3)
    }
}
impl ExternalDevice for RecDev {
    fn io_read(&mut self, addr: u16, effectful: bool) -> Option<u16> {
        self.log.lock().unwrap().push((self.tag, Ev::Read(addr, effectful)));
        Some(RecDev::value(self.tag, addr))
    }
    fn io_write(&mut self, addr: u16, data: u16) -> bool {
        self.log.lock().unwrap().push((self.tag, Ev::Write(addr, data)));
        self.accept
    }
    fn io_reset(&mut self) {
        self.log.lock().unwrap().push((self.tag, Ev::Reset));
    }
    fn poll_interrupt(&mut self) -> Option<Interrupt> {
        None
    }
}
