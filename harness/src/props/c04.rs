//! C04 — Parsing never panics and its errors point inside the input.
use crate::driver::*;
use crate::gen::prog::{gen_freeform, ProgCfg};
use crate::model::stmt::*;
use crate::tape::Tape;
use lc3_ensemble::err::Error as _;
use lc3_ensemble::parse::parse_ast;
use proptest::prelude::*;
use serde_json::{json, Value};

/// The oracle (also used by the fuzz target `parse_text`).
pub fn oracle(input: &str) -> Result<bool, String> {
    let r = no_panic("parse_ast", || parse_ast(input))?;
    match r {
        Ok(_) => Ok(true),
        Err(e) => {
            let sp = no_panic("ParseErr::span", || e.span())?.ok_or("parse error carries no span")?;
            for s in sp.iter() {
                if !(s.start <= s.end && s.end <= input.len()) {
                    return Err(format!("error {e:?} has span {s:?} outside the input (len {})", input.len()));
                }
            }
            let first = sp.first();
            if !(first.start <= first.end && first.end <= input.len()) {
                return Err(format!("error {e:?} has first span {first:?} outside the input (len {})", input.len()));
            }
            let _ = no_panic("ParseErr display/help", || (e.to_string(), e.help().map(|h| h.to_string())))?;
            Ok(false)
        }
    }
}

const SOUP: &[&str] = &[
    "\"", "\\", "\n", "\r\n", "\r", "#", "x", "X", "-", ".", ":", ",", ";", "0", "1", "9", "R", "r", "7", "8", "A", "f", "g", "_", " ", "\t", "é", "ı", "😀", "\0",
    ".orig", ".end", ".fill", ".stringz", ".blkw", ".external", "ADD", "BR", "brnzp", "NOP", "TRAP", "x3000", "#-1", "R0", "LABEL", "\\n", "\\\"", "\"a\"", "\\é", "ß",
    "65536", "-32769", "xFFFFF", "99999999999999999999999999999999999999", "R99999999999", "##", "-#", "#-", "x-", "\u{a0}", "\u{2028}", "\u{7f}", "١",
];

pub fn decode(tape: &[u32]) -> (String, &'static str) {
    let mut t = Tape::new(tape);
    match t.weighted(&[4, 4, 3]) {
        0 => {
            // token soup
            let n = t.pick(40);
            let mut s = String::new();
            for _ in 0..n {
                s.push_str(SOUP[t.pick(SOUP.len())]);
                if t.chance(1, 3) {
                    s.push(' ');
                }
            }
            (s, "soup")
        }
        1 => {
            // valid program with character-level mutations, concentrated around strings and numbers
            let prog = gen_freeform(&mut t, &ProgCfg { max_stmts: 12, big: false, ..ProgCfg::default() }, true);
            let r = render(&prog, &mut t, RenderOpts { plain: false, wild_comments: true });
            let mut chars: Vec<char> = r.text.chars().collect();
            let nmut = 1 + t.pick(8);
            for _ in 0..nmut {
                if chars.is_empty() {
                    break;
                }
                // prefer positions next to quotes, backslashes, digits, '#', 'x'
                let hot: Vec<usize> = chars.iter().enumerate().filter(|(_, c)| matches!(c, '"' | '\\' | '#' | 'x' | 'X' | '-' | '0'..='9')).map(|(i, _)| i).collect();
                let pos = if !hot.is_empty() && t.chance(2, 3) { hot[t.pick(hot.len())] } else { t.pick(chars.len()) };
                let pos = (pos + t.pick(3)).saturating_sub(1).min(chars.len() - 1);
                const INS: &[char] = &['"', '\\', '\n', '\r', 'é', '😀', '#', 'x', '-', '9', 'F', ';', ':', ',', '.', '\0', 'ı', ' '];
                match t.pick(5) {
                    0 => chars.insert(pos, INS[t.pick(INS.len())]),
                    1 => {
                        chars.remove(pos);
                    }
                    2 => chars[pos] = INS[t.pick(INS.len())],
                    3 => {
                        let c = chars[pos];
                        chars.insert(pos, c);
                    }
                    _ => chars.truncate(pos),
                }
            }
            (chars.into_iter().collect(), "mutated-program")
        }
        _ => {
            // targeted literal / escape edge cases
            let pre = *t.choose(&["", ".stringz ", ".orig x3000\n.stringz ", "A .fill ", "ADD R0,R0,", ".blkw ", "TRAP "]);
            let body = match t.pick(12) {
                0 => "\"\\".to_string(),
                1 => "\"abc\\\n".to_string(),
                2 => "\"abc\\\r\n\"".to_string(),
                3 => "\"\\é\"".to_string(),
                4 => "\"\\😀".to_string(),
                5 => "\"unterminated".to_string(),
                6 => format!("\"{}\"", "a".repeat(65533 + t.pick(4))),
                7 => format!("\"{}", "\\\\".repeat(32766 + t.pick(3))),
                8 => "9".repeat(20 + t.pick(30)),
                9 => format!("x{}", "F".repeat(3 + t.pick(40))),
                10 => format!("R{}", "7".repeat(1 + t.pick(40))),
                _ => format!("#-{}", "0".repeat(t.pick(50)) + "32769"),
            };
            let post = *t.choose(&["", "\n", "\r\n", " ; c\n.end", "\"", "\\"]);
            (format!("{pre}{body}{post}"), "targeted")
        }
    }
}

fn classify(input: &str, kind: &str, ok: bool, st: &mut Stats) {
    st.class(&format!("gen:{kind}"));
    st.class(if ok { "parsed" } else { "rejected" });
    if input.contains('"') || input.contains('\\') || !input.is_ascii() || kind == "mutated-program" {
        st.nontrivial(input);
        if input.contains('\\') {
            st.class("has-backslash");
        }
        if !input.is_ascii() {
            st.class("has-non-ascii");
        }
        if st.want_sample() && input.len() < 300 {
            st.sample(json!(input));
        }
    }
}

pub fn check(tape: &[u32], st: &mut Stats) -> Result<(), String> {
    let (input, kind) = decode(tape);
    let ok = oracle(&input)?;
    classify(&input, kind, ok, st);
    Ok(())
}

pub fn describe(tape: &[u32]) -> Value {
    let (input, kind) = decode(tape);
    json!({"input": if input.len() > 2000 { format!("{}... ({} bytes)", &input.chars().take(300).collect::<String>(), input.len()) } else { input }, "generator": kind})
}

pub fn run(ctx: &Ctx) -> Outcome {
    let mut out = Outcome::new(
        "(i) proptest any::<String>() and \\PC* strings; (ii) token soup over an alphabet rich in quotes, backslashes, CR/LF, '#', 'x', '-', digits, non-ASCII and NUL; \
         (iii) rendered programs with 1-8 character mutations concentrated around literals; (iv) targeted: backslash before LF/CRLF/EOF, multi-byte char after backslash, unterminated and 65533..65536-byte literals, 20-50 digit numbers; \
         oracle: parse_ast does not unwind; an error has a span list with every span start<=end<=len(input); non-trivial = input has a quote, a backslash, a non-ASCII char, or is a mutated program; distinct by input text",
    );
    let cfg = TapeCfg::new(ctx, 20_000, 400_000, 1200);
    out.shards = cfg.shards;
    out.absorb(tape_search(ctx, "tape", &cfg, check, describe));
    // proptest's own string strategies
    if !out.failed() {
        let cases = ctx.tier.pick(60_000u32, 500_000);
        let shards = 16usize;
        let results: Vec<(Stats, Option<Failure>)> = std::thread::scope(|sc| {
            let hs: Vec<_> = (0..shards)
                .map(|sh| {
                    let seed = derive_seed(ctx.seed, "C04/anystring", sh as u64);
                    sc.spawn(move || {
                        let strat = prop_oneof![any::<String>(), "\\PC*", "[\"\\\\\\n\\r x#0-9A-Za-z.;:,-]{0,40}"];
                        run_strategy(seed, cases / shards as u32, 20000, strat, |s: &String, st| {
                            let ok = oracle(s)?;
                            classify(s, "proptest-string", ok, st);
                            Ok(())
                        }, |s| (json!({"input": s}), json!({"input": s})))
                    })
                })
                .collect();
            hs.into_iter().map(|h| h.join().unwrap()).collect()
        });
        for r in results {
            out.absorb(r);
        }
    }
    if !out.failed() && ctx.tier == Tier::Thorough {
        let fr = libfuzzer(ctx, "parse_text", 2_000_000, 512, 8);
        out.extra.insert("libfuzzer_parse_text_runs".into(), json!(fr.runs));
        if let Some(s) = fr.skipped {
            out.extra.insert("libfuzzer_skipped".into(), json!(s));
        }
        out.stats.evaluations += fr.runs;
        if let Some(bytes) = fr.crash {
            let input = String::from_utf8_lossy(&bytes).to_string();
            if let Err(m) = oracle(&input) {
                out.failure = Some(Failure { case: json!({"input": input}), message: format!("(libFuzzer) {m}"), description: json!({"input": input}) });
            }
        }
    }
    out.essential = ["gen:soup", "gen:mutated-program", "gen:targeted", "gen:proptest-string", "parsed", "rejected", "has-backslash", "has-non-ascii"].iter().map(|s| s.to_string()).collect();
    out
}

pub fn replay(_ctx: &Ctx, case: &Value, st: &mut Stats) -> Result<(), String> {
    if let Some(input) = case["input"].as_str() {
        return oracle(input).map(|_| ());
    }
    let tape: Vec<u32> = serde_json::from_value(case["tape"].clone()).map_err(|e| e.to_string())?;
    check(&tape, st)
}
