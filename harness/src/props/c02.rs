//! C02 — Assembler accepts exactly the well-formed programs.
use crate::driver::*;
use crate::gen::prog::{gen_soup, gen_wellformed, inject_fault, ProgCfg};
use crate::model::asm::{asm_model, AsmOut, ErrClass};
use crate::model::stmt::*;
use crate::tape::Tape;
use lc3_ensemble::asm::{assemble, assemble_debug, AsmErrKind};
use serde_json::{json, Value};

pub struct Case {
    pub prog: Vec<MStmt>,
    pub faults: Vec<&'static str>,
    pub rendered: Rendered,
    pub mode: &'static str,
}

pub fn decode(tape: &[u32]) -> Case {
    decode_opts(tape, true)
}

/// `plain = false`: free layout (indentation, CRLF, trailing blanks and comments, optionally no final newline).
pub fn decode_opts(tape: &[u32], plain: bool) -> Case {
    let mut t = Tape::new(tape);
    let cfg = ProgCfg { max_stmts: 25, ..ProgCfg::default() };
    let mut faults = vec![];
    let (prog, mode) = match t.weighted(&[7, 2, 1]) {
        0 => {
            let (mut p, _) = gen_wellformed(&mut t, &cfg);
            let n = 1 + t.weighted(&[6, 2, 1]);
            for _ in 0..n {
                if let Some(f) = inject_fault(&mut t, &mut p) {
                    faults.push(f);
                }
            }
            (p, "faulted")
        }
        1 => (gen_soup(&mut t, &cfg), "soup"),
        _ => (gen_wellformed(&mut t, &cfg).0, "wellformed"),
    };
    let rendered = render(&prog, &mut t, RenderOpts { plain, wild_comments: false });
    Case { prog, faults, rendered, mode }
}

pub fn describe(tape: &[u32]) -> Value {
    let c = decode(tape);
    let m = asm_model(&c.prog);
    json!({ "source": c.rendered.text, "faults": c.faults, "violated_conditions": format!("{:?}", m.violations) })
}

pub fn class_of(k: &AsmErrKind) -> ErrClass {
    match k {
        AsmErrKind::UndetAddrLabel => ErrClass::UndetAddrLabel,
        AsmErrKind::UndetAddrStmt => ErrClass::UndetAddrStmt,
        AsmErrKind::UnclosedOrig => ErrClass::UnclosedOrig,
        AsmErrKind::UnopenedOrig => ErrClass::UnopenedOrig,
        AsmErrKind::OverlappingOrig => ErrClass::OverlappingOrig,
        AsmErrKind::OverlappingLabels => ErrClass::OverlappingLabels,
        AsmErrKind::WrappingBlock => ErrClass::WrappingBlock,
        AsmErrKind::BlockInIO => ErrClass::BlockInIO,
        AsmErrKind::OverlappingBlocks => ErrClass::OverlappingBlocks,
        AsmErrKind::OffsetNewErr(_) => ErrClass::OffsetNewErr,
        AsmErrKind::OffsetExternal => ErrClass::OffsetExternal,
        AsmErrKind::CouldNotFindLabel => ErrClass::CouldNotFindLabel,
    }
}

fn judge(which: &str, res: Result<Result<(), AsmErrKind>, String>, model: &AsmOut, st: &mut Stats) -> Result<(), String> {
    match res {
        Err(p) => Err(format!("{which} panicked on a parsed program: {p}")),
        Ok(Ok(())) => {
            if !model.ok() {
                return Err(format!("{which} accepted a program that violates {:?}", model.violations));
            }
            st.class("outcome:accepted");
            Ok(())
        }
        Ok(Err(kind)) => {
            if model.ok() {
                return Err(format!("{which} rejected a well-formed program with {kind:?}"));
            }
            let c = class_of(&kind);
            if !model.violations.contains(&c) {
                return Err(format!("{which} reported {kind:?}, but the violated conditions are {:?}", model.violations));
            }
            st.class(&format!("outcome:{c:?}"));
            Ok(())
        }
    }
}

pub fn check(tape: &[u32], st: &mut Stats) -> Result<(), String> {
    let c = decode(tape);
    let model = asm_model(&c.prog);
    let Some(real) = to_real_all(&c.prog, &c.rendered.layout) else {
        st.class("unconstructible");
        return Ok(());
    };
    st.class(&format!("mode:{}", c.mode));
    for f in &c.faults {
        st.class(&format!("fault:{f}"));
    }
    if model.violations.len() == 1 {
        st.class("single-violation");
    } else if model.violations.len() > 1 {
        st.class("multi-violation");
    }
    if !c.faults.is_empty() || c.mode == "soup" {
        st.nontrivial(&c.prog);
        if st.want_sample() && !model.ok() {
            st.sample(json!({ "source": c.rendered.text, "faults": c.faults, "violated_conditions": format!("{:?}", model.violations) }));
        }
    }
    let r1 = no_panic("assemble", || assemble(real.clone()).map(|_| ()).map_err(|e| e.kind));
    judge("assemble", r1, &model, st)?;
    let text = c.rendered.text.clone();
    let r2 = no_panic("assemble_debug", || assemble_debug(real, &text).map(|_| ()).map_err(|e| e.kind));
    judge("assemble_debug", r2, &model, &mut Stats::default())?;
    Ok(())
}

pub fn run(ctx: &Ctx) -> Outcome {
    let mut out = Outcome::new(
        "well-formed generated programs with 1-3 faults from a 22-entry catalogue (missing/extra/nested .orig/.end, statements and labels outside blocks, duplicate labels in any case, \
         .external vs definition, undefined labels, labels exactly at and one step beyond each field's reach, external labels in PC-relative operands, blocks ending at xFE00/xFE01/xFFFF/x10000/beyond, \
         huge .blkw, overlapping/touching/identical/enclosed blocks, empty blocks anywhere) plus unstructured statement soup; oracle: independent model computes the set V of violated conditions; \
         Ok <=> V empty, error kind in V, never a panic (assemble and assemble_debug); non-trivial = faulted or soup program; distinct by statement list",
    );
    let cfg = TapeCfg::new(ctx, 6000, 200_000, 2500);
    out.shards = cfg.shards;
    out.absorb(tape_search(ctx, "main", &cfg, check, describe));
    out.essential = [
        "outcome:accepted", "outcome:UndetAddrLabel", "outcome:UndetAddrStmt", "outcome:UnclosedOrig", "outcome:UnopenedOrig", "outcome:OverlappingOrig",
        "outcome:OverlappingLabels", "outcome:WrappingBlock", "outcome:BlockInIO", "outcome:OverlappingBlocks", "outcome:OffsetNewErr", "outcome:OffsetExternal",
        "outcome:CouldNotFindLabel", "fault:reach-forward-edge", "fault:reach-backward-edge", "fault:reach-forward-beyond", "fault:reach-backward-beyond",
        "fault:end-at-xFE00", "fault:end-at-xFE01", "fault:end-at-x10000", "fault:blocks-touching-after", "fault:blocks-overlap-last-word", "single-violation",
    ]
    .iter()
    .map(|s| s.to_string())
    .collect();
    out
}

pub fn replay(_ctx: &Ctx, case: &Value, st: &mut Stats) -> Result<(), String> {
    let tape: Vec<u32> = serde_json::from_value(case["tape"].clone()).map_err(|e| e.to_string())?;
    check(&tape, st)
}
