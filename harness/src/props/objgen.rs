//! Shared generator of object files for C17/C18/C19: assembled (with/without debug symbols)
//! from generated programs with arbitrary source text, or linked from 2-3 files.
use crate::gen::link::{build_obj, gen_link_set, LinkCfg, SrcFile};
use crate::gen::prog::{gen_wellformed, ProgCfg};
use crate::model::asm::asm_model;
use crate::model::stmt::*;
use crate::tape::Tape;
use lc3_ensemble::asm::ObjectFile;
use serde_json::{json, Value};
use std::collections::BTreeSet;

pub struct GenObj {
    pub obj: ObjectFile,
    pub desc: Value,
    pub traits: BTreeSet<&'static str>,
}

pub fn gen_object(t: &mut Tape) -> Option<GenObj> {
    let mut traits = BTreeSet::new();
    if t.chance(2, 3) {
        // single file
        let (prog, info) = gen_wellformed(t, &ProgCfg { max_stmts: 20, huge: true, ..ProgCfg::default() });
        let plain = t.chance(1, 6);
        let mut rendered = render(&prog, t, RenderOpts { plain, wild_comments: true });
        if t.chance(1, 25) {
            // a source longer than 64 KiB: label positions beyond 65535
            let pad = format!(";{}\n", "p".repeat(66_000 + t.pick(3000)));
            for l in rendered.layout.iter_mut() {
                l.nucleus = l.nucleus.start + pad.len()..l.nucleus.end + pad.len();
                for r in l.labels.iter_mut() {
                    *r = r.start + pad.len()..r.end + pad.len();
                }
                if let Some(r) = l.operand_label.as_mut() {
                    *r = r.start + pad.len()..r.end + pad.len();
                }
                l.line += 1;
            }
            rendered.text = format!("{pad}{}", rendered.text);
            traits.insert("source-longer-than-64KiB");
        }
        let model = asm_model(&prog);
        if !model.ok() {
            return None;
        }
        let debug = t.chance(3, 4);
        let f = SrcFile { prog, rendered, model };
        let obj = build_obj(&f, debug).ok()?;
        traits.insert(if debug { "assembled-debug" } else { "assembled-nodebug" });
        if debug && !f.model.relocs.is_empty() {
            traits.insert("has-relocation");
        }
        if info.blocks >= 2 {
            traits.insert("multi-block");
        }
        if f.model.blocks.iter().any(|(_, len)| *len > 21845) {
            traits.insert("block-longer-than-21845-words");
        }
        if f.prog.is_empty() {
            traits.insert("empty-source");
        }
        let text = &f.rendered.text;
        if debug && text.chars().any(|c| c == '"' || c == '\\' || c == '\t' || c == '\r' || !c.is_ascii() || (c.is_control() && c != '\n')) {
            traits.insert("source-needs-escape");
        }
        if debug && !text.ends_with('\n') {
            traits.insert("no-final-newline");
        }
        let mut inside = false;
        for s in &f.prog {
            match s.kind {
                MKind::Orig(_) => inside = true,
                MKind::End => inside = false,
                MKind::External(_) if inside && debug => {
                    traits.insert("external-inside-block");
                }
                _ => {}
            }
        }
        let shown = if f.rendered.text.len() > 4000 { format!("<{} bytes of comment padding>\n{}", f.rendered.text.len() - 2000, &f.rendered.text[f.rendered.text.len() - 2000..]) } else { f.rendered.text.clone() };
        Some(GenObj { obj, desc: json!({"kind": "assembled", "debug": debug, "source": shown}), traits })
    } else {
        let files = gen_link_set(t, &LinkCfg { max_files: 3, conflict_8: 0, overlaps: false, wild_render: true });
        if files.len() < 2 {
            return None;
        }
        let mut order: Vec<usize> = (0..files.len()).collect();
        // random order
        for i in (1..order.len()).rev() {
            order.swap(i, t.pick(i + 1));
        }
        let mut acc: Option<ObjectFile> = None;
        for &i in &order {
            let debug = !t.chance(1, 8);
            let o = build_obj(&files[i], debug).ok()?;
            acc = Some(match acc {
                None => o,
                Some(a) => ObjectFile::link(a, o).ok()?,
            });
        }
        traits.insert("linked");
        let pending = crate::gen::link::link_model(&files.iter().map(|f| &f.model).collect::<Vec<_>>());
        if !pending.pending.is_empty() {
            traits.insert("has-relocation");
        }
        Some(GenObj {
            obj: acc?,
            desc: json!({"kind": "linked", "order": order, "sources": files.iter().map(|f| f.rendered.text.clone()).collect::<Vec<_>>()}),
            traits,
        })
    }
}

/// Human-readable difference between two object files (None if equal).
pub fn diff_objects(a: &ObjectFile, b: &ObjectFile) -> Option<String> {
    if a == b {
        return None;
    }
    let ia: Vec<_> = a.addr_iter().collect();
    let ib: Vec<_> = b.addr_iter().collect();
    if ia != ib {
        return Some("memory images differ".into());
    }
    match (a.symbol_table(), b.symbol_table()) {
        (None, None) => Some("objects differ (block structure)".into()),
        (Some(_), None) => Some("symbol table was lost".into()),
        (None, Some(_)) => Some("symbol table appeared".into()),
        (Some(sa), Some(sb)) => {
            let la: BTreeSet<_> = sa.label_iter().map(|(n, a, e)| (n.to_string(), a, e, sa.get_label_source(n).map(|r| (r.start, r.end)))).collect();
            let lb: BTreeSet<_> = sb.label_iter().map(|(n, a, e)| (n.to_string(), a, e, sb.get_label_source(n).map(|r| (r.start, r.end)))).collect();
            if la != lb {
                return Some(format!("label tables differ: only in original {:?}; only in copy {:?}", la.difference(&lb).collect::<Vec<_>>(), lb.difference(&la).collect::<Vec<_>>()));
            }
            let na: Vec<_> = sa.line_iter().collect();
            let nb: Vec<_> = sb.line_iter().collect();
            if na != nb {
                return Some(format!("line mappings differ: {na:?} vs {nb:?}"));
            }
            match (sa.source_info(), sb.source_info()) {
                (Some(x), Some(y)) if x.source() != y.source() => return Some(format!("source texts differ: {:?} vs {:?}", x.source(), y.source())),
                (Some(_), None) | (None, Some(_)) => return Some("debug symbols present on one side only".into()),
                _ => {}
            }
            Some("relocation entries (or other symbol-table data) differ".into())
        }
    }
}
