//! C08 — Each simulator step follows the LC-3 ISA (lock-step differential against RefCpu).
use crate::driver::*;
use crate::model::cpu::*;
use crate::model::isa::MInstr;
use crate::props::simrig::*;
use crate::tape::Tape;
use serde_json::{json, Value};

pub fn opname(i: &MInstr) -> &'static str {
    match i {
        MInstr::Br { .. } => "BR",
        MInstr::Add { .. } => "ADD",
        MInstr::And { .. } => "AND",
        MInstr::Ld { .. } => "LD",
        MInstr::St { .. } => "ST",
        MInstr::Jsr { .. } => "JSR",
        MInstr::Jsrr { .. } => "JSRR",
        MInstr::Ldr { .. } => "LDR",
        MInstr::Str { .. } => "STR",
        MInstr::Rti => "RTI",
        MInstr::Not { .. } => "NOT",
        MInstr::Ldi { .. } => "LDI",
        MInstr::Sti { .. } => "STI",
        MInstr::Jmp { .. } => "JMP",
        MInstr::Lea { .. } => "LEA",
        MInstr::Trap { .. } => "TRAP",
    }
}

/// Drives both machines for the case; returns Err on the first disagreement.
pub fn lockstep(c: &StateCase, st: &mut Stats, per_step: &mut dyn FnMut(&mut Rig, &RefCpu, &StepOut) -> Result<(), String>) -> Result<bool, String> {
    let mut rig = build_rig(&c.spec);
    let mut r = build_ref(&c.spec, &mut rig);
    // (a disagreement about the machine state before the first step would be a harness error; the accessor checks
    // inside compare_state are about the library even then)
    compare_state(&mut rig, &mut r, &mut std::iter::empty(), "initial state").map_err(|e| if e.contains("reports (privileged") || e.contains("is_empty()") { e } else { format!("HARNESS: {e} (harness self-check)") })?;
    let mut interesting = false;
    for i in 0..c.steps {
        rig.plan.lock().unwrap().push_back(c.plan[i]);
        let was_user = r.user_mode();
        let res = rig.sim.step_in();
        rig.plan.lock().unwrap().clear();
        let pending: Vec<(u8, u8)> = c.plan[i].into_iter().collect();
        let out = r.step(&pending);
        let what = format!("step {i} ({})", match (&r.info.took_interrupt, &r.info.instr) {
            (Some((v, p)), _) => format!("interrupt x{v:02X} priority {p}"),
            (None, Some(ins)) => format!("{ins:?} at x{:04X}", r.fault_addr),
            (None, None) => format!("fetch at x{:04X}", r.fault_addr),
        });
        if r.info.entry_stack_on_ireg {
            // R11: supervisor stack placed on a memory-mapped internal register; the ISA gives no meaning to this
            st.class("excluded:entry-stack-on-internal-register");
            st.inconclusive += 1;
            return Ok(interesting);
        }
        // classification
        let mode = if was_user { "user" } else { "supervisor" };
        if let Some(_) = r.info.took_interrupt {
            st.class(&format!("interrupt-taken-from-{mode}"));
            interesting = true;
        } else if !pending.is_empty() {
            st.class("interrupt-masked");
        }
        if let Some(ins) = &r.info.instr {
            let outcome = match (&out, r.info.exception_entry) {
                (StepOut::Err(f), _) => format!("{f:?}"),
                (_, Some(f)) => format!("real-{f:?}"),
                (StepOut::Halt, _) => "halt".into(),
                _ => "ok".into(),
            };
            st.class(&format!("{}:{}", opname(ins), outcome));
            if !matches!(ins, MInstr::Add { .. } | MInstr::And { .. } | MInstr::Not { .. } | MInstr::Lea { .. }) {
                interesting = true;
            }
        }
        if let (Some(f), Some(ph)) = (r.info.exception_entry, r.info.fault_phase) {
            st.class(&format!("real-exception-{ph}:{f:?}"));
        }
        if let Some(_) = r.info.trap_entry {
            st.class(&format!("trap-entry-from-{mode}"));
        }
        if let Some(u) = r.info.rti_to_user {
            st.class(if u { "rti-to-user" } else { "rti-to-supervisor" });
        }
        for a in &r.info.io_touched {
            st.class(&format!("mmio:x{a:04X}"));
        }
        // results
        match (&res, &out) {
            (Ok(()), StepOut::Ok) => {}
            (Ok(()), StepOut::Halt) => {
                // a virtual HALT leaves the machine on the HALT instruction: that is the "currently executing" one
                let p = rig.sim.prefetch_pc();
                if !c.spec.real_traps && p != r.fault_addr {
                    return Err(format!("{what}: after the virtual HALT prefetch_pc() = x{p:04X}, the HALT instruction is at x{:04X}", r.fault_addr));
                }
            }
            (Err(e), StepOut::Err(f)) if classify_err(e) == Some(*f) => {
                let p = rig.sim.prefetch_pc();
                if p != r.fault_addr {
                    return Err(format!("{what}: error {e:?} reported with prefetch_pc() = x{p:04X}, the faulting instruction is at x{:04X}", r.fault_addr));
                }
            }
            (a, b) => return Err(format!("{what}: simulator returned {a:?}, reference {b:?}")),
        }
        let touched: Vec<u16> = r.info.reads.iter().chain(r.info.writes.iter()).copied().collect();
        let sp = r.r[6];
        let mut addrs = touched.into_iter().chain([sp, sp.wrapping_add(1), sp.wrapping_sub(1), sp.wrapping_sub(2), r.saved_sp, r.pc]);
        compare_state(&mut rig, &mut r, &mut addrs, &what)?;
        compare_frames(&rig, &r, &what)?;
        per_step(&mut rig, &r, &out)?;
        if !matches!(out, StepOut::Ok) {
            break;
        }
        if r.info.writes.contains(&MCR_ADDR) && !r.mcr {
            // the OS HALT routine cleared the MCR: the machine has stopped
            break;
        }
    }
    // complete memory at the end of the case
    let mut all = 0..=u16::MAX;
    compare_state(&mut rig, &mut r, &mut all, "final state")?;
    Ok(interesting)
}

pub fn check(tape: &[u32], st: &mut Stats) -> Result<(), String> {
    let mut t = Tape::new(tape);
    let c = gen_state(&mut t, false);
    check_case(&c, st)
}

pub fn check_case(c: &StateCase, st: &mut Stats) -> Result<(), String> {
    let interesting = lockstep(c, st, &mut |_, _, _| Ok(()))?;
    if interesting {
        st.nontrivial(&case_to_json(c).to_string());
        if st.want_sample() {
            st.sample(describe_state(c));
        }
    }
    Ok(())
}

/// C08(b): generated user programs on the real OS, stepped to completion in lock step.
pub fn check_prog(tape: &[u32], st: &mut Stats) -> Result<(), String> {
    use crate::gen::exec::{gen_exec, ExecCfg};
    let mut t = Tape::new(tape);
    let Some(p) = gen_exec(&mut t, &ExecCfg::default()) else {
        st.class("prog-offset-overflow");
        return Ok(());
    };
    let real = t.chance(1, 2);
    let init = if t.chance(1, 2) { lc3_ensemble::sim::mem::MachineInitStrategy::Seeded { seed: t.raw() as u64 } } else { lc3_ensemble::sim::mem::MachineInitStrategy::Known { value: 0 } };
    let spec = spec_for_prog(&p, real, t.chance(1, 2), init);
    let steps = 30_000;
    let mut plan = vec![None; steps];
    if t.chance(1, 3) {
        for _ in 0..t.pick(4) {
            let at = t.pick(400);
            plan[at] = Some((0x80 + t.pick(3) as u8, 1 + t.pick(7) as u8));
        }
    }
    let c = StateCase { spec, plan, steps };
    lockstep(&c, st, &mut |_, _, _| Ok(()))?;
    st.class(&format!("prog-ending:{:?}:{}", p.ending, if real { "real" } else { "virtual" }));
    st.nontrivial(&p.words);
    Ok(())
}

pub fn describe_prog_case(tape: &[u32]) -> Value {
    use crate::gen::exec::{gen_exec, ExecCfg};
    let mut t = Tape::new(tape);
    gen_exec(&mut t, &ExecCfg::default()).map(|p| describe_prog(&p)).unwrap_or(Value::Null)
}

pub fn describe(tape: &[u32]) -> Value {
    let mut t = Tape::new(tape);
    let c = gen_state(&mut t, false);
    let mut d = describe_state(&c);
    d["state_json"] = case_to_json(&c);
    d
}

pub fn run(ctx: &Ctx) -> Outcome {
    let mut out = Outcome::new(
        "random machine states (flags real/virtual traps, privilege checks on/off, debug frames, Seeded/Known init; PSR privilege/priority/CC; PC, registers, stack pointers biased to the protection and page boundaries; \
         windows of 1-16 instructions with operands aimed at boundary addresses, 1/6 raw words; RTI frames; keyboard queue with/without interrupt enable; display; extra internal-register mappings; scheduled vectored interrupts with random priority) \
         stepped 1-40 times in lock step with an independent reference machine; after every step: result kind, R0-R7, PC, PSR, saved SP, instruction count, frame depth/list, MCR, keyboard queue, display bytes, every touched address, prefetch_pc on error; full memory at the end; \
         non-trivial = at least one memory/control/trap/RTI/interrupt step executed; distinct by tape",
    );
    out.assumptions.push("reference machine pinned interpretations R1-R10 (DESIGN.md 3.2); interrupt vectors x80-xFF only; strict mode off (C14 covers it)".into());
    let cfg = TapeCfg::new(ctx, 6000, 400_000, 400);
    out.shards = cfg.shards;
    out.absorb(tape_search(ctx, "states", &cfg, check, describe));
    if !out.failed() {
        let cfg2 = TapeCfg::new(ctx, 300, 20_000, 600);
        out.absorb(tape_search(ctx, "programs", &cfg2, check_prog, describe_prog_case));
    }
    if !out.failed() {
        // the PSR's field setters and getters agree (all 48 field combinations x every setter argument)
        if let Err(m) = psr_fields(&mut out.stats) {
            out.failure = Some(Failure { case: json!({"psr_fields": true}), message: m, description: json!("PSR field setters/getters") });
        }
    }
    out.essential = [
        "BR:ok", "ADD:ok", "AND:ok", "NOT:ok", "LEA:ok", "LD:ok", "LD:Acv", "LD:real-Acv", "ST:ok", "ST:Acv", "LDR:ok", "LDR:Acv", "STR:ok", "STR:Acv", "LDI:ok", "LDI:Acv", "STI:ok", "STI:Acv",
        "JMP:ok", "JSR:ok", "JSRR:ok", "TRAP:ok", "TRAP:halt", "RTI:ok", "RTI:Privilege", "RTI:real-Privilege",
        "trap-entry-from-user", "trap-entry-from-supervisor", "rti-to-user", "rti-to-supervisor", "interrupt-taken-from-user", "interrupt-taken-from-supervisor", "interrupt-masked",
        "real-exception-fetch:Acv", "real-exception-decode:IllegalOpcode", "real-exception-decode:InvalidFormat", "real-exception-execute:Acv", "real-exception-execute:Privilege",
        "mmio:xFE00", "mmio:xFE02", "mmio:xFE04", "mmio:xFE06", "mmio:xFFFC", "mmio:xFFFE", "psr-field-setters",
    ]
    .iter()
    .map(|s| s.to_string())
    .collect();
    out
}

/// Setting one field of a PSR changes that field to the given value and no other field.
fn psr_fields(st: &mut Stats) -> Result<(), String> {
    use lc3_ensemble::sim::PSR;
    let fields = |p: &PSR| (p.privileged(), p.priority(), p.cc());
    for privl in [false, true] {
        for prio in 0..8u8 {
            for cc in [1u8, 2, 4] {
                let mk = || {
                    let mut p = PSR::new();
                    p.set_privileged(privl);
                    p.set_priority(prio);
                    p.set_cc(cc);
                    p
                };
                let p = mk();
                if fields(&p) != (privl, prio, cc) {
                    return Err(format!("PSR built with set_privileged({privl}), set_priority({prio}), set_cc({cc}) reports {:?} (bits x{:04X})", fields(&p), p.get()));
                }
                let bits = ((!privl as u16) << 15) | ((prio as u16) << 8) | cc as u16;
                if p.get() != bits {
                    return Err(format!("PSR with privileged={privl}, priority={prio}, cc={cc} has bits x{:04X}, expected x{bits:04X}", p.get()));
                }
                for b in [false, true] {
                    let mut q = mk();
                    q.set_privileged(b);
                    st.evaluations += 1;
                    if fields(&q) != (b, prio, cc) {
                        return Err(format!("set_privileged({b}) on x{bits:04X} gives {:?}", fields(&q)));
                    }
                }
                for k in 0..8u8 {
                    let mut q = mk();
                    q.set_priority(k);
                    st.evaluations += 1;
                    if fields(&q) != (privl, k, cc) {
                        return Err(format!("set_priority({k}) on x{bits:04X} gives {:?}", fields(&q)));
                    }
                }
                for c in [1u8, 2, 4] {
                    let mut q = mk();
                    q.set_cc(c);
                    st.evaluations += 1;
                    if fields(&q) != (privl, prio, c) || (q.is_n(), q.is_z(), q.is_p()) != (c == 4, c == 2, c == 1) {
                        return Err(format!("set_cc({c}) on x{bits:04X} gives {:?}", fields(&q)));
                    }
                }
            }
        }
    }
    st.class("psr-field-setters");
    Ok(())
}

pub fn replay(_ctx: &Ctx, case: &Value, st: &mut Stats) -> Result<(), String> {
    if case.get("psr_fields").is_some() {
        return psr_fields(st);
    }
    if case.get("state").is_some() {
        return check_case(&case_from_json(&case["state"])?, st);
    }
    if case["sub"].as_str() == Some("programs") {
        let tape: Vec<u32> = serde_json::from_value(case["tape"].clone()).map_err(|e| e.to_string())?;
        return check_prog(&tape, st);
    }
    let tape: Vec<u32> = serde_json::from_value(case["tape"].clone()).map_err(|e| e.to_string())?;
    check(&tape, st)
}
