//! C10 — Interrupts are priority-gated and transparent to the interrupted program.
use crate::driver::*;
use crate::gen::exec::{gen_exec, ExecCfg, ExecProg};
use crate::model::cpu::*;
use crate::model::isa::{self, MInstr, Src};
use crate::props::simrig::*;
use crate::tape::Tape;
use lc3_ensemble::sim::device::{Interrupt, InterruptFromFn, TimerDevice};
use lc3_ensemble::sim::mem::{MachineInitStrategy, Word};
use lc3_ensemble::sim::MemAccessCtx;
use serde_json::{json, Value};
use std::sync::atomic::Ordering::Relaxed;
use std::sync::{Arc, Mutex};

const NSRC: usize = 3;
fn handler_addr(k: usize) -> u16 {
    0x1000 + 0x20 * k as u16
}

/// Supervisor routine: saves R0 (and R1), bumps a counter in supervisor memory, optionally reads KBDR, restores, RTI.
const SERVICE_VECT: u16 = 0x30;
const SERVICE_ADDR: u16 = 0x1080;
fn handler_words(k: usize, read_kbdr: bool, calls_trap: bool, calls_puts: bool) -> Vec<(u16, u16)> {
    let h = handler_addr(k);
    let cnt = h + 0x11;
    let ptr = h + 0x10;
    let mut code: Vec<MInstr> = vec![
        MInstr::Add { dr: 6, sr1: 6, src: Src::Imm(-2) },
        MInstr::Str { sr: 0, base: 6, off: 0 },
        MInstr::Str { sr: 1, base: 6, off: 1 },
    ];
    if read_kbdr {
        code.push(MInstr::Ldi { dr: 1, off: 0 }); // patched below
    }
    if calls_trap {
        // the handler itself calls a (harness-installed, silent) service routine: a TRAP inside an interrupt handler
        code.push(MInstr::Trap { vect: SERVICE_VECT as u8 });
    }
    if calls_puts {
        // the handler uses an OS routine itself: PUTS of an empty string (prints nothing, so the output stays comparable);
        // when the interrupted program is inside PUTS too, two activations of the routine overlap
        code.push(MInstr::Lea { dr: 0, off: 0 }); // patched below
        code.push(MInstr::Trap { vect: 0x22 });
    }
    code.push(MInstr::Ld { dr: 0, off: 0 });
    code.push(MInstr::Add { dr: 0, sr1: 0, src: Src::Imm(1) });
    code.push(MInstr::St { sr: 0, off: 0 });
    code.push(MInstr::Not { dr: 1, sr: 0 });
    code.push(MInstr::Ldr { dr: 1, base: 6, off: 1 });
    code.push(MInstr::Ldr { dr: 0, base: 6, off: 0 });
    code.push(MInstr::Add { dr: 6, sr1: 6, src: Src::Imm(2) });
    code.push(MInstr::Rti);
    let mut out = vec![];
    for (i, m) in code.iter().enumerate() {
        let at = h + i as u16;
        let pc1 = at + 1;
        let m = match m {
            MInstr::Ldi { dr, .. } => MInstr::Ldi { dr: *dr, off: (ptr - pc1) as i16 },
            MInstr::Lea { dr, .. } => MInstr::Lea { dr: *dr, off: (h + 0x12 - pc1) as i16 },
            MInstr::Ld { dr, .. } => MInstr::Ld { dr: *dr, off: (cnt - pc1) as i16 },
            MInstr::St { sr, .. } => MInstr::St { sr: *sr, off: (cnt - pc1) as i16 },
            x => *x,
        };
        out.push((at, isa::enc(&m)));
    }
    out.push((ptr, KBDR));
    out.push((cnt, 0));
    out.push((h + 0x12, 0));
    out.push((0x180 + k as u16, h));
    if calls_trap {
        out.push((SERVICE_VECT, SERVICE_ADDR));
        for (i, m) in [MInstr::Add { dr: 1, sr1: 1, src: Src::Imm(0) }, MInstr::Not { dr: 1, sr: 1 }, MInstr::Not { dr: 1, sr: 1 }, MInstr::Add { dr: 1, sr1: 1, src: Src::Imm(0) }, MInstr::Rti].iter().enumerate() {
            out.push((SERVICE_ADDR + i as u16, isa::enc(m)));
        }
    }
    out
}

#[derive(Clone, Debug)]
pub struct Sched {
    /// (step boundary at which the request is raised, source, priority)
    pub events: Vec<(usize, usize, u8)>,
    pub kbd_irq: bool,
    pub timer: Option<(u64, u32, u32, u8)>,
}

struct Sources {
    pending: Arc<Mutex<[Option<u8>; NSRC]>>,
}

fn build(p: &ExecProg, real: bool, sched: &Sched) -> (Rig, Sources) {
    let mut spec = spec_for_prog(p, real, false, MachineInitStrategy::Known { value: 0 });
    for k in 0..NSRC {
        spec.overlay.extend(handler_words(k, k == 0 && sched.kbd_irq, k == 2, k == 1));
    }
    if sched.kbd_irq {
        spec.kbd = Some(vec![7, 8, 9]);
        spec.kbd_ie = true;
    }
    let mut rig = build_rig(&spec);
    let pending: Arc<Mutex<[Option<u8>; NSRC]>> = Arc::new(Mutex::new([None; NSRC]));
    for k in 0..NSRC {
        let p2 = Arc::clone(&pending);
        rig.sim.device_handler.add_device(InterruptFromFn::new(move || p2.lock().unwrap()[k].map(|pr| Interrupt::vectored(0x80 + k as u8, pr))), &[]).expect("source attaches");
    }
    if let Some((seed, a, b, prio)) = sched.timer {
        let mut tm = TimerDevice::new(Some(seed), a..=b, 0x81, prio);
        tm.enabled = true;
        rig.sim.device_handler.add_device(tm, &[]).expect("timer attaches");
    }
    (rig, Sources { pending })
}

struct Final {
    regs: [u16; 8],
    psr: u16,
    user: Vec<u16>,
    display: Vec<u8>,
    steps: usize,
}

fn finished(rig: &Rig, real: bool, before_pc: u16, before_n: u64) -> bool {
    if real {
        !rig.sim.mcr().load(Relaxed)
    } else {
        rig.sim.mem[before_pc].get() == 0xF025 && rig.sim.pc == before_pc && rig.sim.instructions_run == before_n
    }
}

/// Runs the program with the schedule; checks clause (i) at every entry.
fn run_sched(p: &ExecProg, real: bool, sched: &Sched, st: &mut Stats) -> Result<Option<Final>, String> {
    let (mut rig, src) = build(p, real, sched);
    rig.sim.mcr().store(true, Relaxed);
    let om = MemAccessCtx::omnipotent();
    let mut step = 0usize;
    let budget = 120_000;
    let mut nested = false;
    loop {
        if step >= budget {
            return Ok(None);
        }
        for (at, k, pr) in &sched.events {
            if *at == step {
                src.pending.lock().unwrap()[*k] = Some(*pr);
            }
        }
        let pend = *src.pending.lock().unwrap();
        let (pc0, psr0, n0) = (rig.sim.pc, rig.sim.psr().get(), rig.sim.instructions_run);
        let r6_0 = rig.sim.reg_file[reg(6)].get();
        let depth0 = rig.sim.frame_stack.len();
        if let Err(e) = rig.sim.step_in() {
            return Err(format!("HARNESS: program failed at step {step}: {e:?}"));
        }
        step += 1;
        let psr1 = rig.sim.psr().get();
        // only RTI lowers the priority level: neither a TRAP nor any other instruction of these programs/handlers does
        if (psr1 >> 8) & 7 < (psr0 >> 8) & 7 && rig.sim.mem[pc0].get() != 0x8000 {
            return Err(format!("step {} (x{:04X} at PC x{pc0:04X}): the priority level dropped from {} to {} although the instruction is not an RTI (a request of priority <= {} could now preempt the running handler)", step - 1, rig.sim.mem[pc0].get(), (psr0 >> 8) & 7, (psr1 >> 8) & 7, (psr0 >> 8) & 7));
        }
        if rig.sim.mem[pc0].get() == 0xF000 | SERVICE_VECT && (psr0 >> 8) & 7 > 0 && rig.sim.instructions_run != n0 {
            st.class("trap-inside-interrupt-handler");
        }
        // an interrupt entry: no instruction counted, one more frame, PC at a handler
        let taken = (0..NSRC).find(|k| rig.sim.pc == handler_addr(*k) && rig.sim.instructions_run == n0 && rig.sim.frame_stack.len() == depth0 + 1);
        if let Some(k) = taken {
            let prio0 = ((psr0 >> 8) & 7) as u8;
            let prio1 = ((psr1 >> 8) & 7) as u8;
            let what = format!("interrupt x{:02X} taken at boundary {} (PC x{pc0:04X}, PSR x{psr0:04X})", 0x80 + k, step - 1);
            let from_scheduled = pend[k].is_some();
            let from_device = (k == 0 && sched.kbd_irq) || (k == 1 && sched.timer.is_some());
            if !from_scheduled && !from_device {
                return Err(format!("{what}: but no request with that vector was pending"));
            }
            if prio1 <= prio0 {
                return Err(format!("{what}: its priority {prio1} does not exceed the current priority {prio0}"));
            }
            if from_scheduled && !from_device {
                if pend[k] != Some(prio1) {
                    return Err(format!("{what}: entered with priority {prio1}, the request had priority {:?}", pend[k]));
                }
                let best = pend.iter().flatten().copied().max().unwrap();
                if prio1 < best && !sched.kbd_irq && sched.timer.is_none() {
                    return Err(format!("{what}: a request with higher priority {best} was pending at the same boundary (pending: {pend:?})"));
                }
            }
            if pend[k] == Some(prio1) {
                // the level-held request has been served
                src.pending.lock().unwrap()[k] = None;
            }
            if psr1 & 0x8000 != 0 {
                return Err(format!("{what}: handler entered in user mode"));
            }
            let sp = rig.sim.reg_file[reg(6)].get();
            let saved_pc = rig.sim.mem[sp].get();
            let saved_psr = rig.sim.mem[sp.wrapping_add(1)].get();
            if saved_pc != pc0 {
                return Err(format!("{what}: saved PC on the supervisor stack is x{saved_pc:04X}; the next instruction to execute was x{pc0:04X} (interrupts are taken at instruction boundaries)"));
            }
            if saved_psr != psr0 {
                return Err(format!("{what}: saved PSR is x{saved_psr:04X}, the PSR was x{psr0:04X}"));
            }
            if psr0 & 0x8000 != 0 {
                let ssp = rig.sim.read_mem(SSP_PORT, om).map(|w| w.get()).unwrap_or(0);
                if ssp != r6_0 {
                    return Err(format!("{what}: user stack pointer x{r6_0:04X} was not saved (saved SP = x{ssp:04X})"));
                }
                st.class("taken-in-user-code");
            } else if prio0 > 0 {
                st.class("nested-interrupt");
                nested = true;
            } else {
                st.class("taken-inside-trap-routine");
            }
            let npend = pend.iter().flatten().count();
            if npend >= 2 {
                st.class("two-pending-same-boundary");
            }
        } else if rig.sim.instructions_run == n0 && rig.sim.frame_stack.len() == depth0 + 1 && rig.sim.pc != pc0 {
            // some other vectored entry without instruction: unknown vector
            return Err(format!("step {}: an interrupt entry to x{:04X} occurred that no source requested", step - 1, rig.sim.pc));
        } else {
            // not taken at this boundary: every pending request must have been masked or wait
            let prio0 = ((psr0 >> 8) & 7) as u8;
            if pend.iter().flatten().any(|p| *p <= prio0) {
                st.class("masked-request");
            }
        }
        if finished(&rig, real, pc0, n0) {
            break;
        }
    }
    let _ = nested;
    let mut regs = [0u16; 8];
    for i in 0..8 {
        regs[i] = rig.sim.reg_file[reg(i)].get();
    }
    let _ = Word::new_init(0);
    let display = rig.display.as_ref().unwrap().read().unwrap().clone();
    Ok(Some(Final {
        regs,
        psr: rig.sim.psr().get(),
        user: (USER_START..IO_START).map(|a| rig.sim.mem[a].get()).collect(),
        display,
        steps: step,
    }))
}

fn compare(base: &Final, got: &Final, what: &str) -> Result<(), String> {
    for i in 0..8 {
        if base.regs[i] != got.regs[i] {
            return Err(format!("{what}: R{i} ends as x{:04X}, uninterrupted run x{:04X}", got.regs[i], base.regs[i]));
        }
    }
    if base.psr != got.psr {
        return Err(format!("{what}: PSR ends as x{:04X}, uninterrupted run x{:04X}", got.psr, base.psr));
    }
    if base.display != got.display {
        return Err(format!("{what}: output {:?}, uninterrupted run {:?}", got.display, base.display));
    }
    for (i, (a, b)) in base.user.iter().zip(&got.user).enumerate() {
        if a != b {
            return Err(format!("{what}: user memory x{:04X} ends as x{b:04X}, uninterrupted run x{a:04X}", USER_START as usize + i));
        }
    }
    Ok(())
}

pub fn decode(tape: &[u32]) -> (ExecProg, bool, Tape<'_>) {
    let mut t = Tape::new(tape);
    let small = t.chance(1, 2);
    let p = gen_exec(&mut t, &ExecCfg { allow_fault: false, allow_input: false, max_snippets: if small { 3 } else { 10 }, ..ExecCfg::default() }).unwrap();
    let real = t.chance(1, 3);
    (p, real, t)
}

pub fn check(tape: &[u32], st: &mut Stats) -> Result<(), String> {
    let (p, real, mut t) = decode(tape);
    let none = Sched { events: vec![], kbd_irq: false, timer: None };
    let Some(base) = run_sched(&p, real, &none, &mut Stats::default())? else {
        st.inconclusive += 1;
        return Ok(());
    };
    let mut local = Stats::default();
    if base.steps <= 60 {
        // exhaustive single placement over every boundary, one priority per boundary cycling 1..7 plus the masked priority 0
        st.class("exhaustive-single-placement");
        let k = t.pick(NSRC);
        for at in 0..base.steps {
            for pr in [(at % 7) as u8 + 1, 0] {
                let s = Sched { events: vec![(at, k, pr)], kbd_irq: false, timer: None };
                st.evaluations += 1;
                let got = run_sched(&p, real, &s, &mut local)?.ok_or("interrupted run did not finish")?;
                compare(&base, &got, &format!("one interrupt (source {k}, priority {pr}) raised at boundary {at}"))?;
            }
        }
        // double placements: all pairs for very short programs, a sample otherwise
        let pairs: Vec<(usize, usize)> = if base.steps <= 25 {
            (0..base.steps).flat_map(|a| (a..base.steps).map(move |b| (a, b))).collect()
        } else {
            (0..40).map(|_| {
                let a = t.pick(base.steps);
                (a, a + t.pick(base.steps - a))
            }).collect()
        };
        st.class(if base.steps <= 25 { "exhaustive-double-placement" } else { "sampled-double-placement" });
        for (a, b) in pairs {
            let (p1, p2) = (1 + ((a + b) % 7) as u8, 1 + ((a * 3 + b) % 7) as u8);
            // the first source is the trap-calling handler (2) in a third of the pairs, so that the second request arrives while it is inside its trap
            let (s1, s2) = if (a + 2 * b) % 3 == 0 { (2, (a + b) % 2) } else { (0, 1 + (a + b) % 2) };
            let s = Sched { events: vec![(a, s1, p1), (b, s2, p2)], kbd_irq: false, timer: None };
            st.evaluations += 1;
            let got = run_sched(&p, real, &s, &mut local)?.ok_or("interrupted run did not finish")?;
            compare(&base, &got, &format!("two interrupts (priorities {p1},{p2}) raised at boundaries {a},{b}"))?;
        }
    } else {
        st.class("random-schedule");
        for _ in 0..3 {
            let n = 1 + t.pick(4);
            let events = (0..n).map(|_| (t.pick(base.steps), t.pick(NSRC), t.pick(8) as u8)).collect();
            let kbd_irq = t.chance(1, 3);
            let timer = t.chance(1, 3).then(|| {
                let a = 1 + t.pick(30) as u32;
                (t.raw() as u64, a, a + t.pick(20) as u32, 1 + t.pick(7) as u8)
            });
            if kbd_irq {
                st.class("keyboard-interrupts");
            }
            if timer.is_some() {
                st.class("timer-interrupts");
            }
            let s = Sched { events, kbd_irq, timer };
            st.evaluations += 1;
            let Some(got) = run_sched(&p, real, &s, &mut local)? else {
                st.inconclusive += 1;
                continue;
            };
            compare(&base, &got, &format!("random schedule {s:?}"))?;
        }
    }
    let taken = local.classes.keys().any(|k| k.starts_with("taken") || k.starts_with("nested"));
    for (k, v) in local.classes {
        st.class_n(&k, v);
    }
    if taken {
        st.nontrivial(&p.words);
        if st.want_sample() {
            st.sample(json!({"program": describe_prog(&p), "real_traps": real, "uninterrupted_steps": base.steps}));
        }
    }
    Ok(())
}

pub fn describe(tape: &[u32]) -> Value {
    let (p, real, _) = decode(tape);
    json!({"program": describe_prog(&p), "real_traps": real})
}

pub fn run(ctx: &Ctx) -> Outcome {
    let mut out = Outcome::new(
        "generated user programs (most of their time inside OS trap routines when they print) with three harness-controlled level-held interrupt sources (vectors x80-x82, handlers that save/restore what they use, bump a supervisor counter and RTI), a keyboard with interrupts enabled and a seeded TimerDevice; \
         programs of <= 60 steps: every boundary x one interrupt (priority cycling 1-7, and the masked priority 0), all boundary pairs (<= 25 steps) or 40 sampled pairs with two sources; longer programs: random schedules incl. keyboard and timer interrupts; \
         at every entry: request was pending, its priority exceeds the current one and is the highest pending, handler entered in supervisor mode at mem[x100+v] with PSR[10:8] = priority, mem[R6] = next instruction to execute, mem[R6+1] = old PSR, user SP saved; \
         at the end R0-R7, PSR, user memory and output equal the uninterrupted run; an evaluation is one scheduled run; non-trivial = >= 1 interrupt actually taken; distinct by program",
    );
    let cfg = TapeCfg::new(ctx, 300, 20_000, 600);
    out.shards = cfg.shards;
    out.absorb(tape_search(ctx, "main", &cfg, check, describe));
    out.assumptions.push("interrupt sources are harness devices polled once per step; handlers and the TRAP x30 service routine are installed by the harness in supervisor memory x1000-x10FF, which the pinned OS image does not use".into());
    out.essential = ["exhaustive-single-placement", "exhaustive-double-placement", "random-schedule", "taken-in-user-code", "taken-inside-trap-routine", "nested-interrupt", "masked-request", "two-pending-same-boundary", "trap-inside-interrupt-handler", "keyboard-interrupts", "timer-interrupts"].iter().map(|s| s.to_string()).collect();
    out
}

pub fn replay(_ctx: &Ctx, case: &Value, st: &mut Stats) -> Result<(), String> {
    let tape: Vec<u32> = serde_json::from_value(case["tape"].clone()).map_err(|e| e.to_string())?;
    check(&tape, st)
}
