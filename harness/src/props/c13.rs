//! C13 — Run, step-over, step-out and pauses equal repeated single steps.
use crate::driver::*;
use crate::gen::exec::{gen_exec, ExecCfg, ExecProg};
use crate::props::simrig::*;
use crate::tape::Tape;
use lc3_ensemble::sim::debug::{Breakpoint, Comparator};
use lc3_ensemble::sim::mem::MachineInitStrategy;
use lc3_ensemble::sim::{SimErr, Simulator};
use serde_json::{json, Value};
use std::sync::atomic::Ordering::Relaxed;

#[derive(Clone, Debug)]
pub enum Cmp {
    Never,
    Lt(u16),
    Eq(u16),
    Le(u16),
    Gt(u16),
    Ne(u16),
    Ge(u16),
    Always,
}
impl Cmp {
    fn holds(&self, v: u16) -> bool {
        match *self {
            Cmp::Never => false,
            Cmp::Lt(r) => v < r,
            Cmp::Eq(r) => v == r,
            Cmp::Le(r) => v <= r,
            Cmp::Gt(r) => v > r,
            Cmp::Ne(r) => v != r,
            Cmp::Ge(r) => v >= r,
            Cmp::Always => true,
        }
    }
    fn real(&self) -> Comparator {
        match *self {
            Cmp::Never => Comparator::Never,
            Cmp::Lt(r) => Comparator::Lt(r),
            Cmp::Eq(r) => Comparator::Eq(r),
            Cmp::Le(r) => Comparator::Le(r),
            Cmp::Gt(r) => Comparator::Gt(r),
            Cmp::Ne(r) => Comparator::Ne(r),
            Cmp::Ge(r) => Comparator::Ge(r),
            Cmp::Always => Comparator::Always,
        }
    }
}
#[derive(Clone, Debug)]
pub enum Bp {
    Pc(u16),
    Reg(usize, Cmp),
    Mem(u16, Cmp),
}
impl Bp {
    fn holds(&self, s: &Simulator) -> bool {
        match self {
            Bp::Pc(a) => s.pc == *a,
            Bp::Reg(r, c) => c.holds(s.reg_file[reg(*r)].get()),
            Bp::Mem(a, c) => c.holds(s.mem[*a].get()),
        }
    }
    fn real(&self) -> Breakpoint {
        match self {
            Bp::Pc(a) => Breakpoint::PC(*a),
            Bp::Reg(r, c) => Breakpoint::Reg { reg: reg(*r), value: c.real() },
            Bp::Mem(a, c) => Breakpoint::Mem { addr: *a, value: c.real() },
        }
    }
}

#[derive(Clone, Debug)]
pub enum Call {
    Run,
    RunLimit(u64),
    /// run_while(instructions since the call < n)
    RunWhileCount(u64),
    StepOver,
    StepOut,
    StepIn,
    /// run_while whose tripwire clears the MCR once `n` instructions have run (only as last call)
    RunClearMcr(u64),
}
#[derive(Clone, Debug)]
pub struct Script {
    pub prog: ExecProg,
    pub real: bool,
    pub init: MachineInitStrategy,
    /// (breakpoints in force, call)
    pub calls: Vec<(Vec<Bp>, Call)>,
    /// initial value of the public instruction counter
    pub start_count: u64,
}

#[derive(Clone, Copy, Debug, PartialEq, Eq)]
pub enum Pause {
    Halt,
    McrOff,
    Breakpoint,
    Tripwire,
    Error,
    /// step_in / step_out at depth 0 set no pause condition
    None,
}

fn gen_cmp(t: &mut Tape) -> Cmp {
    let v = *t.choose(&[0u16, 1, 2, 0x3000, 0xFFFF, 0x8000, 5]);
    match t.pick(8) {
        0 => Cmp::Never,
        1 => Cmp::Lt(v),
        2 => Cmp::Eq(v),
        3 => Cmp::Le(v),
        4 => Cmp::Gt(v),
        5 => Cmp::Ne(v),
        6 => Cmp::Ge(v),
        _ => Cmp::Always,
    }
}

pub fn decode(tape: &[u32]) -> Script {
    let mut t = Tape::new(tape);
    let allow_fault = t.chance(1, 4);
    let prog = gen_exec(&mut t, &ExecCfg { allow_fault, ..ExecCfg::default() }).unwrap();
    let real = t.chance(1, 2);
    let init = MachineInitStrategy::Known { value: 0 };
    let n = 1 + t.pick(6);
    let nwords = prog.words.len() as u16;
    let mut calls = vec![];
    for i in 0..n {
        let mut bps = vec![];
        for _ in 0..t.weighted(&[5, 3, 1]) {
            bps.push(match t.pick(4) {
                0 | 1 => Bp::Pc(match t.pick(4) {
                    0 => prog.subs.first().copied().unwrap_or(0x3002),
                    1 => 0x0200 + t.pick(0x100) as u16,
                    _ => 0x3000 + t.pick(nwords.max(1) as usize) as u16,
                }),
                2 => Bp::Reg(t.pick(8), gen_cmp(&mut t)),
                _ => Bp::Mem(0x3000 + t.pick(nwords.max(1) as usize) as u16, gen_cmp(&mut t)),
            });
        }
        let last = i + 1 == n;
        let call = match t.weighted(&[3, 3, 2, 3, 3, 3, 1]) {
            0 => Call::Run,
            1 => Call::RunLimit(t.pick(60) as u64),
            2 => Call::RunWhileCount(t.pick(40) as u64),
            3 => Call::StepOver,
            4 => Call::StepOut,
            5 => Call::StepIn,
            _ if last => Call::RunClearMcr(t.pick(50) as u64),
            _ => Call::RunLimit(t.pick(60) as u64),
        };
        calls.push((bps, call));
    }
    // (read after everything else, so that tapes recorded before these two options existed decode as before)
    let start_count = if t.chance(1, 8) { u64::MAX - t.pick(120) as u64 } else { 0 };
    if t.chance(1, 4) {
        // an "unlimited" limit on one of the run_with_limit calls
        let k = t.pick(calls.len());
        if let Call::RunLimit(n) = &mut calls[k].1 {
            *n = u64::MAX - t.pick(4) as u64;
        }
    }
    Script { prog, real, init, calls, start_count }
}

fn err_kind(r: &Result<(), SimErr>) -> String {
    match r {
        Ok(()) => "Ok".into(),
        Err(e) => format!("{e:?}"),
    }
}

/// Reference: the documented stop conditions, driven only by `step_in`.
fn ref_run(b: &mut Simulator, real: bool, bps: &[Bp], trip: &mut dyn FnMut(&mut Simulator) -> bool, budget: &mut u64) -> (Result<(), SimErr>, Pause) {
    b.mcr().store(true, Relaxed);
    let out = loop {
        if !b.mcr().load(Relaxed) {
            break (Ok(()), Pause::McrOff);
        }
        if !trip(b) {
            break (Ok(()), Pause::Tripwire);
        }
        if *budget == 0 {
            break (Ok(()), Pause::None);
        }
        *budget -= 1;
        let (pc, n) = (b.pc, b.instructions_run);
        let halt_word = b.mem[pc].get() == 0xF025;
        match b.step_in() {
            Err(e) => break (Err(e), Pause::Error),
            Ok(()) => {
                // a virtual HALT leaves PC and instruction count where they were
                if !real && halt_word && b.pc == pc && b.instructions_run == n {
                    break (Ok(()), Pause::Halt);
                }
            }
        }
        if bps.iter().any(|bp| bp.holds(b)) {
            break (Ok(()), Pause::Breakpoint);
        }
    };
    b.mcr().store(false, Relaxed);
    out
}

fn ref_call(b: &mut Simulator, real: bool, bps: &[Bp], call: &Call, zero_more: bool, budget: &mut u64) -> (Result<(), SimErr>, Pause) {
    match call {
        Call::Run => ref_run(b, real, bps, &mut |_| true, budget),
        Call::RunLimit(n) => {
            let start = b.instructions_run;
            ref_run(b, real, bps, &mut |s| s.instructions_run.wrapping_sub(start) < *n, budget)
        }
        Call::RunWhileCount(n) => {
            let start = b.instructions_run;
            ref_run(b, real, bps, &mut |s| s.instructions_run.wrapping_sub(start) < *n, budget)
        }
        Call::StepOver => {
            let d = b.frame_stack.len();
            let mut first = true;
            ref_run(b, real, bps, &mut |s| std::mem::take(&mut first) || d < s.frame_stack.len(), budget)
        }
        Call::StepOut => {
            let d = b.frame_stack.len();
            if d == 0 {
                return (Ok(()), Pause::None);
            }
            let mut first = true;
            ref_run(b, real, bps, &mut |s| std::mem::take(&mut first) || d <= s.frame_stack.len(), budget)
        }
        Call::StepIn => {
            let r = b.step_in();
            (r, Pause::None)
        }
        Call::RunClearMcr(n) => {
            let start = b.instructions_run;
            if zero_more {
                // variant: the run stops at the boundary where the MCR was cleared
                let mut cleared = false;
                let r = ref_run(b, real, bps, &mut |s| {
                    if s.instructions_run.wrapping_sub(start) >= *n {
                        cleared = true;
                        return false;
                    }
                    true
                }, budget);
                if cleared {
                    return (r.0, Pause::McrOff);
                }
                r
            } else {
                ref_run(b, real, bps, &mut |s| {
                    if s.instructions_run.wrapping_sub(start) >= *n {
                        s.mcr().store(false, Relaxed);
                    }
                    true
                }, budget)
            }
        }
    }
}

fn api_call(a: &mut Simulator, call: &Call) -> Result<(), SimErr> {
    match call {
        Call::Run => a.run(),
        Call::RunLimit(n) => a.run_with_limit(*n),
        Call::RunWhileCount(n) => {
            let start = a.instructions_run;
            let n = *n;
            a.run_while(move |s| s.instructions_run.wrapping_sub(start) < n)
        }
        Call::StepOver => a.step_over(),
        Call::StepOut => a.step_out(),
        Call::StepIn => a.step_in(),
        Call::RunClearMcr(n) => {
            let start = a.instructions_run;
            let n = *n;
            a.run_while(move |s| {
                if s.instructions_run.wrapping_sub(start) >= n {
                    s.mcr().store(false, Relaxed);
                }
                true
            })
        }
    }
}

fn diff(a: &mut Rig, b: &mut Rig) -> Option<String> {
    for i in 0..8 {
        let (x, y) = (a.sim.reg_file[reg(i)].get(), b.sim.reg_file[reg(i)].get());
        if x != y {
            return Some(format!("R{i} = x{x:04X}, single-stepping gives x{y:04X}"));
        }
    }
    if a.sim.pc != b.sim.pc {
        return Some(format!("PC = x{:04X}, single-stepping gives x{:04X}", a.sim.pc, b.sim.pc));
    }
    if a.sim.psr().get() != b.sim.psr().get() {
        return Some(format!("PSR = x{:04X}, single-stepping gives x{:04X}", a.sim.psr().get(), b.sim.psr().get()));
    }
    if a.sim.instructions_run != b.sim.instructions_run {
        return Some(format!("instructions_run = {}, single-stepping gives {}", a.sim.instructions_run, b.sim.instructions_run));
    }
    if a.sim.frame_stack.len() != b.sim.frame_stack.len() {
        return Some(format!("frame depth = {}, single-stepping gives {}", a.sim.frame_stack.len(), b.sim.frame_stack.len()));
    }
    let (da, db) = (a.display.as_ref().unwrap().read().unwrap().clone(), b.display.as_ref().unwrap().read().unwrap().clone());
    if da != db {
        return Some(format!("display = {da:?}, single-stepping gives {db:?}"));
    }
    let (ka, kb): (Vec<u8>, Vec<u8>) = (a.kbd.as_ref().unwrap().read().unwrap().iter().copied().collect(), b.kbd.as_ref().unwrap().read().unwrap().iter().copied().collect());
    if ka != kb {
        return Some(format!("keyboard queue = {ka:?}, single-stepping gives {kb:?}"));
    }
    for addr in 0..=u16::MAX {
        // the MCR port mirror differs legitimately while a run-style call has the MCR set
        if addr == 0xFFFE {
            continue;
        }
        let (x, y) = (a.sim.mem[addr].get(), b.sim.mem[addr].get());
        if x != y {
            return Some(format!("mem[x{addr:04X}] = x{x:04X}, single-stepping gives x{y:04X}"));
        }
    }
    None
}

/// A machine whose public instruction counter starts at `start` (usually 0; sometimes just below u64::MAX, so that it wraps during the script).
fn mk(spec: &MachineSpec, start: u64) -> Rig {
    let mut r = build_rig(spec);
    r.sim.instructions_run = start;
    r
}

pub fn check(tape: &[u32], st: &mut Stats) -> Result<(), String> {
    check_script(&decode(tape), false, st)
}

/// `strict`: listed known findings are not excluded (replay of a saved case).
pub fn check_script(s: &Script, strict: bool, st: &mut Stats) -> Result<(), String> {
    if s.start_count != 0 {
        st.class("instruction-counter-starts-near-u64-max");
    }
    if s.calls.iter().any(|(_, c)| matches!(c, Call::RunLimit(n) if *n > u64::MAX - 100)) {
        st.class("run_with_limit-near-u64-max");
    }
    let mut spec = spec_for_prog(&s.prog, s.real, false, s.init);
    // runaway protection for the API-driven simulator: the fuse device raises an external interrupt
    spec.fuse = std::env::var("LC3V_C13_FUSE").ok().and_then(|s| s.parse().ok()).unwrap_or(2_000_000);
    let mut a = mk(&spec, s.start_count);
    let mut b = mk(&spec, s.start_count);
    let mut budget = 300_000u64;
    let mut pauses = 0;
    let mut finished = false;
    for (i, (bps, call)) in s.calls.iter().enumerate() {
        a.sim.breakpoints.clear();
        for bp in bps {
            a.sim.breakpoints.insert(bp.real());
        }
        let uses_bp = !matches!(call, Call::StepIn);
        let ra = api_call(&mut a.sim, call);
        if matches!(ra, Err(SimErr::Interrupt(_))) {
            st.inconclusive += 1;
            st.class("fuse-blown");
            if std::env::var("LC3V_DEBUG_FUSE").is_ok() { return Err("fuse blown".into()); }
            return Ok(());
        }
        let what = format!("call {i} ({call:?} with breakpoints {bps:?})");
        let bps_eff: &[Bp] = if uses_bp { bps } else { &[] };
        st.class(&format!("call:{}", format!("{call:?}").split('(').next().unwrap()));
        if let Call::RunClearMcr(_) = call {
            // at most one more instruction after the MCR is cleared: either reference variant is accepted
            let mut b0 = mk(&spec, s.start_count);
            let mut bud0 = 300_000u64;
            // bring b0 to b's state by replaying the earlier calls
            for (bp2, c2) in &s.calls[..i] {
                let e: &[Bp] = if matches!(c2, Call::StepIn) { &[] } else { bp2 };
                let _ = ref_call(&mut b0.sim, s.real, e, c2, false, &mut bud0);
            }
            let (rb1, p1) = ref_call(&mut b.sim, s.real, bps_eff, call, false, &mut budget);
            let (rb0, p0) = ref_call(&mut b0.sim, s.real, bps_eff, call, true, &mut bud0);
            if budget == 0 || bud0 == 0 {
                st.inconclusive += 1;
                return Ok(());
            }
            let m1 = err_kind(&ra) == err_kind(&rb1) && diff(&mut a, &mut b).is_none() && pause_matches(&a.sim, p1);
            let m0 = err_kind(&ra) == err_kind(&rb0) && diff(&mut a, &mut b0).is_none() && pause_matches(&a.sim, p0);
            if !m1 && !m0 {
                return Err(format!("{what}: after the MCR was cleared the run matches neither 'stop at once' nor 'one more instruction': {}", diff(&mut a, &mut b).unwrap_or_else(|| format!("result {} vs {}", err_kind(&ra), err_kind(&rb1)))));
            }
            st.class(if m1 { "mcr-clear:one-more" } else { "mcr-clear:zero-more" });
            pauses += 1;
            break;
        }
        // known finding: when a call ends - for a reason other than MCR-off - right after the instruction that
        // cleared the MCR (step_in over the OS HALT routine's STI, or a breakpoint matching at that boundary),
        // the halt leaves no trace; the next run-style call restarts the machine and runs the halt loop again
        let (rb, pause) = ref_call(&mut b.sim, s.real, bps_eff, call, false, &mut budget);
        if !matches!(pause, Pause::McrOff | Pause::Halt | Pause::Error) && step_in_cleared_mcr(&b.sim, b.sim.pc.wrapping_sub(1)) {
            st.class("call-ended-right-after-mcr-clear");
            if !strict && known("C13", SIG_STEPIN_MCR) {
                st.excluded_known += 1;
                return Ok(());
            }
        }
        if budget == 0 {
            st.inconclusive += 1;
            st.class("budget-exhausted");
            return Ok(());
        }
        if std::env::var("LC3V_DEBUG").is_ok() {
            eprintln!("{what}: A -> {} pc=x{:04X} psr=x{:04X} n={} depth={} | B -> {} pause={pause:?}", err_kind(&ra), a.sim.pc, a.sim.psr().get(), a.sim.instructions_run, a.sim.frame_stack.len(), err_kind(&rb));
        }
        if err_kind(&ra) != err_kind(&rb) {
            return Err(format!("{what}: returned {}, repeated single steps give {}", err_kind(&ra), err_kind(&rb)));
        }
        if let Some(d) = diff(&mut a, &mut b) {
            return Err(format!("{what}: {d} (stop reason by single steps: {pause:?})"));
        }
        if !pause_matches(&a.sim, pause) {
            return Err(format!("{what}: hit_halt() = {}, hit_breakpoint() = {}, single steps stopped because of {pause:?}", a.sim.hit_halt(), a.sim.hit_breakpoint()));
        }
        st.class(&format!("pause:{pause:?}"));
        if !matches!(pause, Pause::Halt | Pause::Error) {
            pauses += 1;
        }
        if matches!(pause, Pause::Error | Pause::Halt | Pause::McrOff) || rb.is_err() {
            // the execution is over; calling run again would start a new execution (e.g. the OS HALT loop
            // runs three more instructions each time), which is not "splitting an execution"
            finished = true;
            break;
        }
    }
    // segmented execution == one unbroken run
    if !s.calls.iter().any(|(_, c)| matches!(c, Call::RunClearMcr(_))) {
        let mut c = mk(&spec, s.start_count);
        a.sim.breakpoints.clear();
        let ra = if finished { Ok(()) } else { a.sim.run_with_limit(300_000) };
        let rc = c.sim.run_with_limit(300_000);
        let ra = if finished { rc.as_ref().map(|_| ()).map_err(|e| match e { SimErr::AccessViolation => SimErr::AccessViolation, SimErr::PrivilegeViolation => SimErr::PrivilegeViolation, SimErr::IllegalOpcode => SimErr::IllegalOpcode, SimErr::InvalidInstrFormat => SimErr::InvalidInstrFormat, _ => SimErr::IllegalOpcode }) } else { ra };
        // a faulting program reports its error again when resumed; compare kinds only
        let stuck = |r: &Result<(), SimErr>, s: &Simulator| r.is_ok() && !s.hit_halt();
        if (!finished && stuck(&ra, &a.sim)) || stuck(&rc, &c.sim) {
            st.inconclusive += 1;
            return Ok(());
        }
        if std::env::var("LC3V_DEBUG").is_ok() {
            eprintln!("final: A -> {} pc=x{:04X} n={} halt={} | C -> {} pc=x{:04X} n={} halt={} finished={finished}", err_kind(&ra), a.sim.pc, a.sim.instructions_run, a.sim.hit_halt(), err_kind(&rc), c.sim.pc, c.sim.instructions_run, c.sim.hit_halt());
        }
        if err_kind(&ra) != err_kind(&rc) {
            return Err(format!("segmented execution ends with {}, one unbroken run with {}", err_kind(&ra), err_kind(&rc)));
        }
        // instruction counts: the segmented run may have executed the same instructions only
        if let Some(d) = diff(&mut a, &mut c) {
            return Err(format!("final state after {} paused/resumed segments differs from one unbroken run: {d}", s.calls.len()));
        }
        st.class("segmented-vs-unbroken");
    }
    if pauses >= 2 && (s.prog.info.calls > 0 || s.prog.info.traps > 0) {
        st.nontrivial(&script_to_json(s).to_string());
        if st.want_sample() {
            st.sample(json!({"program": describe_prog(&s.prog), "real_traps": s.real, "calls": s.calls.iter().map(|(b, c)| format!("{c:?} with {b:?}")).collect::<Vec<_>>()}));
        }
    }
    Ok(())
}

pub const SIG_STEPIN_MCR: &str = "step-in-over-mcr-clear";

/// Did the instruction at `pc_before` store a word with bit 15 clear to the MCR port?
fn step_in_cleared_mcr(s: &Simulator, pc_before: u16) -> bool {
    use crate::model::isa::{dec, MInstr};
    let w = s.mem[pc_before].get();
    match dec(w) {
        Ok(MInstr::Sti { sr, off }) => {
            let cell = pc_before.wrapping_add(1).wrapping_add(off as u16);
            s.mem[cell].get() == 0xFFFE && s.reg_file[reg(sr as usize)].get() & 0x8000 == 0 && s.pc == pc_before.wrapping_add(1)
        }
        _ => false,
    }
}

fn pause_matches(a: &Simulator, p: Pause) -> bool {
    match p {
        Pause::Halt | Pause::McrOff => a.hit_halt() && !a.hit_breakpoint(),
        Pause::Breakpoint => a.hit_breakpoint() && !a.hit_halt(),
        Pause::Tripwire | Pause::Error => !a.hit_halt() && !a.hit_breakpoint(),
        Pause::None => true,
    }
}

fn cmp_json(c: &Cmp) -> Value {
    match c {
        Cmp::Never => json!(["never", 0]),
        Cmp::Lt(v) => json!(["lt", v]),
        Cmp::Eq(v) => json!(["eq", v]),
        Cmp::Le(v) => json!(["le", v]),
        Cmp::Gt(v) => json!(["gt", v]),
        Cmp::Ne(v) => json!(["ne", v]),
        Cmp::Ge(v) => json!(["ge", v]),
        Cmp::Always => json!(["always", 0]),
    }
}
fn cmp_from(v: &Value) -> Result<Cmp, String> {
    let x = v[1].as_u64().unwrap_or(0) as u16;
    Ok(match v[0].as_str().ok_or("bad comparator")? {
        "never" => Cmp::Never,
        "lt" => Cmp::Lt(x),
        "eq" => Cmp::Eq(x),
        "le" => Cmp::Le(x),
        "gt" => Cmp::Gt(x),
        "ne" => Cmp::Ne(x),
        "ge" => Cmp::Ge(x),
        "always" => Cmp::Always,
        o => return Err(format!("unknown comparator {o}")),
    })
}

/// Stable (generator-independent) form of a script: the replay payload.
pub fn script_to_json(s: &Script) -> Value {
    json!({
        "origin": s.prog.origin, "words": s.prog.words, "kbd": s.prog.kbd, "subs": s.prog.subs,
        "has_calls": s.prog.info.calls, "has_traps": s.prog.info.traps,
        "real": s.real, "start_count": s.start_count,
        "calls": s.calls.iter().map(|(b, c)| json!({
            "bps": b.iter().map(|bp| match bp {
                Bp::Pc(a) => json!({"pc": a}),
                Bp::Reg(r, c) => json!({"reg": r, "cmp": cmp_json(c)}),
                Bp::Mem(a, c) => json!({"mem": a, "cmp": cmp_json(c)}),
            }).collect::<Vec<_>>(),
            "call": match c {
                Call::Run => json!(["run", 0]),
                Call::RunLimit(n) => json!(["run_with_limit", n]),
                Call::RunWhileCount(n) => json!(["run_while_count", n]),
                Call::StepOver => json!(["step_over", 0]),
                Call::StepOut => json!(["step_out", 0]),
                Call::StepIn => json!(["step_in", 0]),
                Call::RunClearMcr(n) => json!(["run_clear_mcr", n]),
            },
        })).collect::<Vec<_>>(),
    })
}

pub fn script_from_json(v: &Value) -> Result<Script, String> {
    let words: Vec<u16> = serde_json::from_value(v["words"].clone()).map_err(|e| e.to_string())?;
    let kbd: Vec<u8> = serde_json::from_value(v["kbd"].clone()).map_err(|e| e.to_string())?;
    let subs: Vec<u16> = serde_json::from_value(v["subs"].clone()).unwrap_or_default();
    let mut info = crate::gen::exec::ExecInfo::default();
    info.calls = v["has_calls"].as_u64().unwrap_or(0) as usize;
    info.traps = v["has_traps"].as_u64().unwrap_or(0) as usize;
    let prog = ExecProg { origin: v["origin"].as_u64().unwrap_or(0x3000) as u16, words, kbd, ending: crate::gen::exec::Ending::Halt, info, subs, listing: vec![] };
    let mut calls = vec![];
    for c in v["calls"].as_array().ok_or("calls missing")? {
        let mut bps = vec![];
        for b in c["bps"].as_array().cloned().unwrap_or_default() {
            bps.push(if let Some(a) = b.get("pc") {
                Bp::Pc(a.as_u64().unwrap_or(0) as u16)
            } else if let Some(r) = b.get("reg") {
                Bp::Reg(r.as_u64().unwrap_or(0) as usize, cmp_from(&b["cmp"])?)
            } else {
                Bp::Mem(b["mem"].as_u64().unwrap_or(0) as u16, cmp_from(&b["cmp"])?)
            });
        }
        let n = c["call"][1].as_u64().unwrap_or(0);
        let call = match c["call"][0].as_str().ok_or("bad call")? {
            "run" => Call::Run,
            "run_with_limit" => Call::RunLimit(n),
            "run_while_count" => Call::RunWhileCount(n),
            "step_over" => Call::StepOver,
            "step_out" => Call::StepOut,
            "step_in" => Call::StepIn,
            "run_clear_mcr" => Call::RunClearMcr(n),
            o => return Err(format!("unknown call {o}")),
        };
        calls.push((bps, call));
    }
    Ok(Script { prog, real: v["real"].as_bool().unwrap_or(false), init: MachineInitStrategy::Known { value: 0 }, calls, start_count: v["start_count"].as_u64().unwrap_or(0) })
}

pub fn describe(tape: &[u32]) -> Value {
    let s = decode(tape);
    json!({"program": describe_prog(&s.prog), "real_traps": s.real, "calls": s.calls.iter().map(|(b, c)| format!("{c:?} with {b:?}")).collect::<Vec<_>>(), "script": script_to_json(&s)})
}

pub fn run(ctx: &Ctx) -> Outcome {
    let mut out = Outcome::new(
        "generated programs (calls, traps, loops; real and virtual traps) driven by random scripts of run / run_with_limit / run_while / step_over / step_out / step_in with breakpoint sets (PC, register and memory comparators incl. Always/Never) edited between calls \
         and, as last call, a tripwire that clears the MCR at a chosen instruction count; a twin simulator is driven only by step_in by a reference loop implementing the documented stop conditions; after every call: result kind, R0-R7, PC, PSR, instruction count, frame depth, keyboard, display, all memory, hit_halt/hit_breakpoint; \
         finally the segmented execution is resumed to completion and compared with one unbroken run; MCR clear accepts 'zero more' or 'one more' instruction; non-trivial = >=2 pauses and the program has a call or trap; distinct by script",
    );
    let cfg = TapeCfg::new(ctx, 1500, 60_000, 700);
    out.shards = cfg.shards;
    out.absorb(tape_search(ctx, "main", &cfg, check, describe));
    out.assumptions.push("known finding C13/step-in-over-mcr-clear: a case in which a call ends, not via MCR-off, right after the instruction that cleared the MCR is not compared further (counted in excluded_known); its witness is replayed on every run".into());
    out.essential = ["call:Run", "call:RunLimit", "call:RunWhileCount", "call:StepOver", "call:StepOut", "call:StepIn", "call:RunClearMcr", "pause:Halt", "pause:McrOff", "pause:Breakpoint", "pause:Tripwire", "pause:Error", "segmented-vs-unbroken", "instruction-counter-starts-near-u64-max", "run_with_limit-near-u64-max"].iter().map(|s| s.to_string()).collect();
    out
}

pub fn replay(_ctx: &Ctx, case: &Value, st: &mut Stats) -> Result<(), String> {
    if case.get("script").is_some() {
        return check_script(&script_from_json(&case["script"])?, true, st);
    }
    let tape: Vec<u32> = serde_json::from_value(case["tape"].clone()).map_err(|e| e.to_string())?;
    check_script(&decode(&tape), true, st)
}
