//! C17 / C18 — Binary / text object formats round-trip every object file.
use crate::driver::*;
use crate::props::objgen::{diff_objects, gen_object};
use crate::tape::Tape;
use lc3_ensemble::asm::encoding::{BinaryFormat, ObjFileFormat, TextFormat};
use lc3_ensemble::asm::ObjectFile;
use serde_json::{json, Value};

#[derive(Clone, Copy)]
pub enum Fmt {
    Binary,
    Text,
}

pub fn roundtrip(o: &ObjectFile, fmt: Fmt) -> Result<(), String> {
    let back = match fmt {
        Fmt::Binary => {
            let ser = no_panic("BinaryFormat::serialize", || BinaryFormat::serialize(o))?;
            no_panic("BinaryFormat::deserialize", || BinaryFormat::deserialize(&ser))?
        }
        Fmt::Text => {
            let ser = no_panic("TextFormat::serialize", || TextFormat::serialize(o))?;
            no_panic("TextFormat::deserialize", || TextFormat::deserialize(&ser))?
        }
    };
    match back {
        None => Err("the serialization of an object file is rejected by deserialize".into()),
        Some(b) => match diff_objects(o, &b) {
            None => Ok(()),
            Some(d) => Err(format!("read-back object differs from the original: {d}")),
        },
    }
}

fn check_fmt(tape: &[u32], st: &mut Stats, fmt: Fmt) -> Result<(), String> {
    let mut t = Tape::new(tape);
    let Some(g) = gen_object(&mut t) else {
        st.class("no-object");
        return Ok(());
    };
    for tr in &g.traits {
        st.class(tr);
    }
    if g.traits.iter().any(|x| matches!(*x, "has-relocation" | "multi-block" | "source-needs-escape" | "linked")) {
        st.nontrivial(&g.desc.to_string());
        if st.want_sample() {
            st.sample(g.desc.clone());
        }
    }
    roundtrip(&g.obj, fmt)
}

pub fn describe(tape: &[u32]) -> Value {
    let mut t = Tape::new(tape);
    gen_object(&mut t).map(|g| g.desc).unwrap_or(json!(null))
}

const ESSENTIAL: &[&str] = &["assembled-debug", "assembled-nodebug", "linked", "has-relocation", "multi-block", "source-needs-escape", "external-inside-block", "no-final-newline", "block-longer-than-21845-words", "source-longer-than-64KiB"];

fn run_fmt(ctx: &Ctx, fmt: Fmt, name: &str) -> Outcome {
    let mut out = Outcome::new(&format!(
        "object files assembled with and without debug symbols from generated programs (externals, .external anywhere, .blkw, several blocks, empty blocks/source, sources with quotes, backslashes, tabs, CRLF, control and non-ASCII characters, \
         whitespace-only lines, no trailing newline) and links of 2-3 such files in random order; {name}::deserialize({name}::serialize(o)) must equal o under the type's own PartialEq; \
         non-trivial = object has a relocation entry, >=2 blocks, a source needing escapes, or comes from a link; distinct by generated case"
    ));
    let cfg = TapeCfg::new(ctx, 3000, 100_000, 3000);
    out.shards = cfg.shards;
    out.absorb(tape_search(ctx, "main", &cfg, move |t, st| check_fmt(t, st, fmt), describe));
    out.essential = ESSENTIAL.iter().map(|s| s.to_string()).collect();
    out
}

fn replay_fmt(case: &Value, st: &mut Stats, fmt: Fmt) -> Result<(), String> {
    if let Some(src) = case["source"].as_str() {
        let ast = lc3_ensemble::parse::parse_ast(src).map_err(|e| format!("{e:?}"))?;
        let o = if case["debug"].as_bool().unwrap_or(true) { lc3_ensemble::asm::assemble_debug(ast, src) } else { lc3_ensemble::asm::assemble(ast) }.map_err(|e| format!("{e:?}"))?;
        return roundtrip(&o, fmt);
    }
    let tape: Vec<u32> = serde_json::from_value(case["tape"].clone()).map_err(|e| e.to_string())?;
    check_fmt(&tape, st, fmt)
}

pub fn run17(ctx: &Ctx) -> Outcome {
    run_fmt(ctx, Fmt::Binary, "BinaryFormat")
}
pub fn run18(ctx: &Ctx) -> Outcome {
    run_fmt(ctx, Fmt::Text, "TextFormat")
}
pub fn replay17(_ctx: &Ctx, case: &Value, st: &mut Stats) -> Result<(), String> {
    replay_fmt(case, st, Fmt::Binary)
}
pub fn replay18(_ctx: &Ctx, case: &Value, st: &mut Stats) -> Result<(), String> {
    replay_fmt(case, st, Fmt::Text)
}
