//! Tiers, seeds, sharding, counters, evidence writer, replay writer, known findings.

use proptest::strategy::Strategy;
use proptest::test_runner::{Config, RngSeed, TestCaseError, TestError, TestRunner};
use serde_json::{json, Value};
use std::cell::{Cell, RefCell};
use std::collections::{BTreeMap, HashSet};
use std::hash::{Hash, Hasher};
use std::panic::{catch_unwind, AssertUnwindSafe};
use std::path::{Path, PathBuf};

#[derive(Clone, Copy, PartialEq, Eq, Debug)]
pub enum Tier {
    Quick,
    Thorough,
}
impl Tier {
    pub fn name(self) -> &'static str {
        match self {
            Tier::Quick => "quick",
            Tier::Thorough => "thorough",
        }
    }
    /// `q` for quick, `t` for thorough.
    pub fn pick<T>(self, q: T, t: T) -> T {
        match self {
            Tier::Quick => q,
            Tier::Thorough => t,
        }
    }
}

#[derive(Clone, Debug)]
pub struct Ctx {
    pub id: &'static str,
    pub tier: Tier,
    pub seed: u64,
    pub verif_dir: PathBuf,
}

pub fn fxhash<T: Hash + ?Sized>(t: &T) -> u64 {
    // FNV-1a based hasher: deterministic across runs (unlike RandomState).
    struct Fnv(u64);
    impl Hasher for Fnv {
        fn finish(&self) -> u64 {
            self.0
        }
        fn write(&mut self, bytes: &[u8]) {
            for &b in bytes {
                self.0 ^= b as u64;
                self.0 = self.0.wrapping_mul(0x100000001b3);
            }
        }
    }
    let mut h = Fnv(0xcbf29ce484222325);
    t.hash(&mut h);
    h.finish()
}

pub fn derive_seed(seed: u64, id: &str, shard: u64) -> u64 {
    let mut x = seed ^ fxhash(id) ^ shard.wrapping_mul(0x9E3779B97F4A7C15);
    // splitmix64 finaliser
    x = x.wrapping_add(0x9E3779B97F4A7C15);
    x = (x ^ (x >> 30)).wrapping_mul(0xBF58476D1CE4E5B9);
    x = (x ^ (x >> 27)).wrapping_mul(0x94D049BB133111EB);
    x ^ (x >> 31)
}

#[derive(Default, Debug, Clone)]
pub struct Stats {
    pub evaluations: u64,
    pub nontrivial: HashSet<u64>,
    pub classes: BTreeMap<String, u64>,
    pub samples: Vec<Value>,
    pub excluded_known: u64,
    pub inconclusive: u64,
    /// known findings observed (signature -> description); printed as KNOWN-FINDING
    pub known_seen: BTreeMap<String, String>,
}
impl Stats {
    pub fn class(&mut self, name: &str) {
        *self.classes.entry(name.to_string()).or_insert(0) += 1;
    }
    pub fn class_n(&mut self, name: &str, n: u64) {
        *self.classes.entry(name.to_string()).or_insert(0) += n;
    }
    pub fn nontrivial<T: Hash + ?Sized>(&mut self, key: &T) {
        self.nontrivial.insert(fxhash(key));
    }
    pub fn want_sample(&self) -> bool {
        self.samples.len() < 4
    }
    pub fn sample(&mut self, v: Value) {
        if self.samples.len() < 4 {
            self.samples.push(v);
        }
    }
    pub fn merge(&mut self, other: Stats) {
        self.evaluations += other.evaluations;
        self.nontrivial.extend(other.nontrivial);
        for (k, v) in other.classes {
            *self.classes.entry(k).or_insert(0) += v;
        }
        for s in other.samples {
            if self.samples.len() < 5 {
                self.samples.push(s);
            }
        }
        self.excluded_known += other.excluded_known;
        self.inconclusive += other.inconclusive;
        self.known_seen.extend(other.known_seen);
    }
}

#[derive(Debug, Clone)]
pub struct Failure {
    /// replay payload (property specific): e.g. {"tape":[..]} or {"input":".."}
    pub case: Value,
    pub message: String,
    /// human readable rendering of the decoded case
    pub description: Value,
}

pub struct Outcome {
    pub stats: Stats,
    pub failure: Option<Failure>,
    pub exhaustive: bool,
    pub rule: String,
    pub assumptions: Vec<String>,
    /// classes that must have been hit at least once, otherwise the run is invalid (exit 2)
    pub essential: Vec<String>,
    /// classes that must never be hit (harness self-checks), otherwise the run is invalid (exit 2)
    pub forbidden: Vec<String>,
    pub shards: usize,
    pub extra: BTreeMap<String, Value>,
}
impl Outcome {
    pub fn new(rule: &str) -> Self {
        Outcome {
            stats: Stats::default(),
            failure: None,
            exhaustive: false,
            rule: rule.to_string(),
            assumptions: vec![],
            essential: vec![],
            forbidden: vec![],
            shards: 1,
            extra: BTreeMap::new(),
        }
    }
    pub fn absorb(&mut self, (stats, failure): (Stats, Option<Failure>)) {
        self.stats.merge(stats);
        if self.failure.is_none() {
            self.failure = failure;
        }
    }
    pub fn failed(&self) -> bool {
        self.failure.is_some()
    }
}

pub fn silence_panics() {
    std::panic::set_hook(Box::new(|_| {}));
}

pub fn panic_message(e: Box<dyn std::any::Any + Send>) -> String {
    if let Some(s) = e.downcast_ref::<&str>() {
        s.to_string()
    } else if let Some(s) = e.downcast_ref::<String>() {
        s.clone()
    } else {
        "<non-string panic>".to_string()
    }
}

/// Runs `f`, converting a panic into `Err(message)`.
pub fn no_panic<T>(what: &str, f: impl FnOnce() -> T) -> Result<T, String> {
    catch_unwind(AssertUnwindSafe(f)).map_err(|e| format!("panic in {what}: {}", panic_message(e)))
}

pub struct TapeCfg {
    pub shards: usize,
    pub cases_per_shard: u32,
    pub tape_min: usize,
    pub tape_max: usize,
    pub shrink_iters: u32,
}
impl TapeCfg {
    /// `quick_cases` is the base size of the quick tier; it is multiplied by QUICK_SCALE (10) so that the
    /// tier run on every change does a substantial, fixed amount of work (16 shards in both tiers).
    pub fn new(ctx: &Ctx, quick_cases: u32, thorough_cases: u32, tape_max: usize) -> Self {
        let shards = 16;
        let scale: u32 = std::env::var("LC3V_QUICK_SCALE").ok().and_then(|s| s.parse().ok()).unwrap_or(10);
        // the thorough tier multiplies its base size by THOROUGH_SCALE (10): minutes rather than seconds per property
        let tscale: u32 = std::env::var("LC3V_THOROUGH_SCALE").ok().and_then(|s| s.parse().ok()).unwrap_or(10);
        let total = ctx.tier.pick(quick_cases.saturating_mul(scale), thorough_cases.saturating_mul(tscale).max(quick_cases.saturating_mul(scale)));
        TapeCfg {
            shards,
            cases_per_shard: total.div_ceil(shards as u32),
            tape_min: 0,
            tape_max,
            shrink_iters: 20000,
        }
    }
}

/// Tape-driven search: proptest generates `Vec<u32>` tapes, `check` decodes and
/// evaluates them.  Returns merged stats and the shrunk failure (if any).
pub fn tape_search<C, D>(ctx: &Ctx, sub: &str, cfg: &TapeCfg, check: C, describe: D) -> (Stats, Option<Failure>)
where
    C: Fn(&[u32], &mut Stats) -> Result<(), String> + Sync,
    D: Fn(&[u32]) -> Value + Sync,
{
    let results: Vec<(Stats, Option<Failure>)> = std::thread::scope(|scope| {
        let handles: Vec<_> = (0..cfg.shards)
            .map(|shard| {
                let check = &check;
                let describe = &describe;
                let seed = derive_seed(ctx.seed, &format!("{}/{}", ctx.id, sub), shard as u64);
                scope.spawn(move || {
                    let strat = proptest::collection::vec(proptest::num::u32::ANY, cfg.tape_min..=cfg.tape_max);
                    run_strategy(seed, cfg.cases_per_shard, cfg.shrink_iters, strat, |t: &Vec<u32>, st| check(t, st), |t| {
                        (json!({ "tape": t, "sub": sub }), describe(t))
                    })
                })
            })
            .collect();
        handles.into_iter().map(|h| h.join().expect("shard thread panicked")).collect()
    });
    let mut stats = Stats::default();
    let mut failure = None;
    for (s, f) in results {
        stats.merge(s);
        if failure.is_none() {
            failure = f;
        }
    }
    (stats, failure)
}

/// Generic proptest driver used by `tape_search` and by properties with simple
/// direct strategies (strings, byte vectors).
pub fn run_strategy<T, S, C, E>(seed: u64, cases: u32, shrink_iters: u32, strat: S, check: C, encode: E) -> (Stats, Option<Failure>)
where
    T: std::fmt::Debug,
    S: Strategy<Value = T>,
    C: Fn(&T, &mut Stats) -> Result<(), String>,
    E: Fn(&T) -> (Value, Value),
{
    let mut cfg = Config::default();
    cfg.cases = cases;
    cfg.failure_persistence = None;
    cfg.max_shrink_iters = shrink_iters;
    cfg.rng_seed = RngSeed::Fixed(seed);
    cfg.max_global_rejects = 10_000_000;
    let mut runner = TestRunner::new(cfg);
    let stats = RefCell::new(Stats::default());
    let failed = Cell::new(false);
    let result = runner.run(&strat, |v| {
        let r = if failed.get() {
            let mut scratch = Stats::default();
            catch_unwind(AssertUnwindSafe(|| check(&v, &mut scratch)))
        } else {
            let mut g = stats.borrow_mut();
            g.evaluations += 1;
            catch_unwind(AssertUnwindSafe(|| check(&v, &mut g)))
        };
        match r {
            Ok(Ok(())) => Ok(()),
            Ok(Err(m)) => {
                failed.set(true);
                Err(TestCaseError::fail(m))
            }
            Err(p) => {
                failed.set(true);
                Err(TestCaseError::fail(format!("panic: {}", panic_message(p))))
            }
        }
    });
    let failure = match result {
        Ok(()) => None,
        Err(TestError::Fail(reason, value)) => {
            let (case, description) = encode(&value);
            Some(Failure { case, message: reason.message().to_string(), description })
        }
        Err(TestError::Abort(reason)) => Some(Failure {
            case: json!({"abort": true}),
            message: format!("proptest aborted: {}", reason.message()),
            description: Value::Null,
        }),
    };
    (stats.into_inner(), failure)
}

/// Splits `0..n` work items over threads, each with its own Stats; `f(index, stats)`
/// returns Err to report a failure (first failure wins; that shard stops).
pub fn par_enumerate<F>(n: u64, threads: usize, f: F) -> (Stats, Option<Failure>)
where
    F: Fn(u64, &mut Stats) -> Result<(), Failure> + Sync,
{
    let chunk = n.div_ceil(threads as u64).max(1);
    let results: Vec<(Stats, Option<Failure>)> = std::thread::scope(|scope| {
        let handles: Vec<_> = (0..threads as u64)
            .map(|t| {
                let f = &f;
                scope.spawn(move || {
                    let mut st = Stats::default();
                    let lo = t * chunk;
                    let hi = ((t + 1) * chunk).min(n);
                    let mut i = lo;
                    while i < hi {
                        st.evaluations += 1;
                        let r = catch_unwind(AssertUnwindSafe(|| f(i, &mut st)));
                        match r {
                            Ok(Ok(())) => {}
                            Ok(Err(fail)) => return (st, Some(fail)),
                            Err(p) => {
                                return (
                                    st,
                                    Some(Failure {
                                        case: json!({ "index": i }),
                                        message: format!("panic: {}", panic_message(p)),
                                        description: Value::Null,
                                    }),
                                )
                            }
                        }
                        i += 1;
                    }
                    (st, None)
                })
            })
            .collect();
        handles.into_iter().map(|h| h.join().expect("enumeration thread panicked")).collect()
    });
    let mut stats = Stats::default();
    let mut failure = None;
    for (s, fl) in results {
        stats.merge(s);
        if failure.is_none() {
            failure = fl;
        }
    }
    (stats, failure)
}

// ---------------------------------------------------------------------------------
// Known findings

#[derive(Debug, Clone)]
pub struct Finding {
    pub property: String,
    pub status: String, // "known" | "fixed"
    pub signature: String,
    pub record: String,
}

pub fn load_findings(verif_dir: &Path) -> Vec<Finding> {
    let p = verif_dir.join("known_findings.json");
    let Ok(text) = std::fs::read_to_string(&p) else { return vec![] };
    let Ok(v) = serde_json::from_str::<Value>(&text) else {
        eprintln!("warning: known_findings.json does not parse");
        return vec![];
    };
    v["findings"]
        .as_array()
        .cloned()
        .unwrap_or_default()
        .into_iter()
        .map(|f| Finding {
            property: f["property"].as_str().unwrap_or("").to_string(),
            status: f["status"].as_str().unwrap_or("").to_string(),
            signature: f["signature"].as_str().unwrap_or("").to_string(),
            record: f["record"].as_str().unwrap_or("").to_string(),
        })
        .collect()
}

static FINDINGS: std::sync::OnceLock<Vec<Finding>> = std::sync::OnceLock::new();
/// Loads known_findings.json once (called by main before any check runs).
pub fn init_findings(verif_dir: &Path) -> &'static [Finding] {
    FINDINGS.get_or_init(|| load_findings(verif_dir))
}
/// Is (property, signature) a listed, unrepaired finding?  Generators exclude such cases by construction.
pub fn known(property: &str, signature: &str) -> bool {
    FINDINGS.get().map(|f| is_known(f, property, signature)).unwrap_or(false)
}

/// Is `signature` listed as a *known* (unrepaired) finding for `property`?
pub fn is_known(findings: &[Finding], property: &str, signature: &str) -> bool {
    findings.iter().any(|f| f.property == property && f.status == "known" && f.signature == signature)
}

// ---------------------------------------------------------------------------------
// Evidence and replay files

pub fn write_evidence(ctx: &Ctx, out: &Outcome, wall_s: f64, violations: u64, regression: (u64, u64)) -> std::io::Result<()> {
    let dir = out_dir(ctx).join("evidence");
    std::fs::create_dir_all(&dir)?;
    let mut coverage = serde_json::Map::new();
    coverage.insert("evaluations".into(), json!(out.stats.evaluations));
    coverage.insert("distinct_nontrivial".into(), json!(out.stats.nontrivial.len()));
    coverage.insert("rule".into(), json!(out.rule));
    coverage.insert("samples".into(), json!(out.stats.samples));
    coverage.insert("classes".into(), json!(out.stats.classes));
    coverage.insert("excluded_known".into(), json!(out.stats.excluded_known));
    coverage.insert("inconclusive_cases".into(), json!(out.stats.inconclusive));
    coverage.insert("exhaustive".into(), json!(out.exhaustive));
    coverage.insert("shards".into(), json!(out.shards));
    coverage.insert("regression_replays_run".into(), json!(regression.0));
    coverage.insert("regression_replays_failed".into(), json!(regression.1));
    coverage.insert(
        "known_findings_observed".into(),
        json!(out.stats.known_seen.keys().collect::<Vec<_>>()),
    );
    for (k, v) in &out.extra {
        coverage.insert(k.clone(), v.clone());
    }
    let ev = json!({
        "property_id": ctx.id,
        "tier": ctx.tier.name(),
        "seed": ctx.seed,
        "level": "exploration",
        "coverage": Value::Object(coverage),
        "assumptions": out.assumptions,
        "wall_s": wall_s,
        "violations": violations,
    });
    std::fs::write(dir.join(format!("{}.json", ctx.id)), serde_json::to_string_pretty(&ev).unwrap() + "\n")
}

/// Where evidence and newly found replays go: /verif, or $LC3V_OUT_DIR for sensitivity runs.
pub fn out_dir(ctx: &Ctx) -> PathBuf {
    std::env::var("LC3V_OUT_DIR").map(PathBuf::from).unwrap_or_else(|_| ctx.verif_dir.clone())
}

pub fn write_replay(ctx: &Ctx, f: &Failure) -> PathBuf {
    let dir = out_dir(ctx).join("replays").join(ctx.id);
    let _ = std::fs::create_dir_all(&dir);
    let h = fxhash(&f.case.to_string());
    let path = dir.join(format!("found-{}-{:08x}.json", ctx.seed, h as u32));
    let v = json!({
        "property": ctx.id,
        "case": f.case,
        "message": f.message,
        "description": f.description,
    });
    let _ = std::fs::write(&path, serde_json::to_string_pretty(&v).unwrap() + "\n");
    path
}

/// Committed regression replays: every `*.json` in replays/<ID>/ not starting with `found-`.
pub fn regression_files(ctx: &Ctx) -> Vec<PathBuf> {
    let dir = ctx.verif_dir.join("replays").join(ctx.id);
    let mut v: Vec<PathBuf> = std::fs::read_dir(&dir)
        .map(|rd| {
            rd.filter_map(|e| e.ok())
                .map(|e| e.path())
                .filter(|p| p.extension().is_some_and(|x| x == "json"))
                .filter(|p| !p.file_name().unwrap().to_string_lossy().starts_with("found-"))
                .collect()
        })
        .unwrap_or_default();
    v.sort();
    v
}

// ---------------------------------------------------------------------------------
// libFuzzer campaigns (thorough tiers of C04 / C16 / C19)

pub struct FuzzResult {
    pub runs: u64,
    pub crash: Option<Vec<u8>>,
    pub skipped: Option<String>,
}

/// Runs `procs` libFuzzer processes of `target` with a fresh copy of the committed seed corpus,
/// fixed `-runs` and `-seed` derived from VERIF_SEED.  A missing fuzz binary is reported as skipped.
pub fn libfuzzer(ctx: &Ctx, target: &str, total_runs: u64, max_len: usize, procs: usize) -> FuzzResult {
    let bin = ctx.verif_dir.join("fuzz/target/x86_64-unknown-linux-gnu/release").join(target);
    if !bin.exists() {
        return FuzzResult { runs: 0, crash: None, skipped: Some(format!("fuzz target {target} is not built ({})", bin.display())) };
    }
    let scratch = ctx.verif_dir.join("fuzz/scratch").join(format!("{}-{}-{}", target, std::process::id(), ctx.seed));
    let _ = std::fs::remove_dir_all(&scratch);
    let corpus_src = ctx.verif_dir.join("corpus").join(target);
    let handles: Vec<_> = (0..procs)
        .map(|i| {
            let dir = scratch.join(format!("p{i}"));
            let corpus = dir.join("corpus");
            let arts = dir.join("artifacts");
            let _ = std::fs::create_dir_all(&corpus);
            let _ = std::fs::create_dir_all(&arts);
            if let Ok(rd) = std::fs::read_dir(&corpus_src) {
                for e in rd.flatten() {
                    let _ = std::fs::copy(e.path(), corpus.join(e.file_name()));
                }
            }
            let seed = (derive_seed(ctx.seed, target, i as u64) % 0xFFFF_FFFE) + 1;
            let child = std::process::Command::new(&bin)
                .arg(format!("-runs={}", total_runs / procs as u64))
                .arg(format!("-seed={seed}"))
                .arg("-len_control=0")
                .arg(format!("-max_len={max_len}"))
                .arg("-print_final_stats=1")
                .arg("-timeout=60")
                .arg(format!("-artifact_prefix={}/", arts.display()))
                .arg(&corpus)
                .stdout(std::process::Stdio::null())
                // stderr goes to a file: with pipes the workers that are waited for later block as soon as their
                // pipe is full, i.e. the processes would run one after the other
                .stderr(std::fs::File::create(dir.join("stderr.log")).map(std::process::Stdio::from).unwrap_or_else(|_| std::process::Stdio::null()))
                .spawn();
            (child, arts, dir.join("stderr.log"))
        })
        .collect();
    let mut runs = 0u64;
    let mut crash = None;
    for (child, arts, log) in handles {
        let Ok(mut child) = child else { continue };
        if let Ok(status) = child.wait() {
            let err = std::fs::read(&log).map(|b| String::from_utf8_lossy(&b).into_owned()).unwrap_or_default();
            for line in err.lines() {
                if let Some(v) = line.strip_prefix("stat::number_of_executed_units:") {
                    runs += v.trim().parse::<u64>().unwrap_or(0);
                }
            }
            if !status.success() && crash.is_none() {
                if let Ok(rd) = std::fs::read_dir(&arts) {
                    for e in rd.flatten() {
                        if let Ok(bytes) = std::fs::read(e.path()) {
                            crash = Some(bytes);
                            break;
                        }
                    }
                }
            }
        }
    }
    let _ = std::fs::remove_dir_all(&scratch);
    FuzzResult { runs, crash, skipped: None }
}
