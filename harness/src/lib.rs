//! lc3v: property-based verification harness for endorpersand/lc3-ensemble.
pub mod driver;
pub mod tape;
pub mod model;
pub mod gen;
pub mod props;
