use lc3v::driver::*;
use lc3v::props;
use serde_json::Value;
use std::path::PathBuf;
use std::time::Instant;

fn usage() -> ! {
    eprintln!("usage: lc3v <ID> <quick|thorough> | lc3v <ID> --replay <file> | lc3v --list");
    std::process::exit(2)
}

fn main() {
    let args: Vec<String> = std::env::args().skip(1).collect();
    if args.first().map(|s| s.as_str()) == Some("--list") {
        for p in props::all() {
            println!("{}", p.id);
        }
        return;
    }
    if args.first().map(|s| s.as_str()) == Some("--gen-corpus") {
        let dir = PathBuf::from(args.get(1).cloned().unwrap_or_else(|| "/verif/corpus".into()));
        lc3v::props::corpus::generate(&dir);
        return;
    }
    if args.len() < 2 {
        usage();
    }
    let verif_dir = PathBuf::from(std::env::var("LC3V_VERIF_DIR").unwrap_or_else(|_| "/verif".to_string()));
    let seed: u64 = std::env::var("VERIF_SEED").ok().and_then(|s| s.trim().parse::<i128>().ok()).map(|v| v as u64).unwrap_or(1);
    let all = props::all();
    let Some(prop) = all.iter().find(|p| p.id == args[0]) else {
        eprintln!("unknown property {}", args[0]);
        std::process::exit(2)
    };
    if std::env::var("LC3V_PANIC_TRACE").is_err() {
        silence_panics();
    }
    let findings: Vec<Finding> = init_findings(&verif_dir).to_vec();

    if args[1] == "--replay" {
        let Some(file) = args.get(2) else { usage() };
        let ctx = Ctx { id: prop.id, tier: Tier::Quick, seed, verif_dir };
        std::process::exit(replay_file(&ctx, prop, &findings, &PathBuf::from(file), true));
    }
    let tier = match args[1].as_str() {
        "quick" => Tier::Quick,
        "thorough" => Tier::Thorough,
        _ => usage(),
    };
    let ctx = Ctx { id: prop.id, tier, seed, verif_dir };
    let start = Instant::now();
    // watchdog: a run that exceeds its budget is an infrastructure problem (exit 2), never a violation
    let budget: u64 = std::env::var("LC3V_WATCHDOG_SECS").ok().and_then(|s| s.parse().ok()).unwrap_or(tier.pick(1200, 14400));
    let wid = prop.id;
    std::thread::spawn(move || {
        std::thread::sleep(std::time::Duration::from_secs(budget));
        eprintln!("WATCHDOG: {wid} exceeded {budget}s; inconclusive (exit 2)");
        std::process::exit(2);
    });

    // 1. regression tier: committed replays
    let mut reg_run = 0u64;
    let mut reg_failed = 0u64;
    let mut exit = 0;
    for f in regression_files(&ctx) {
        reg_run += 1;
        let code = replay_file(&ctx, prop, &findings, &f, false);
        if code != 0 {
            reg_failed += 1;
            exit = exit.max(code);
        }
    }

    // 2. search
    let out = (prop.run)(&ctx);
    let mut violations = reg_failed;
    if let Some(f) = &out.failure {
        let path = write_replay(&ctx, f);
        println!("VIOLATION property={} replay={}", ctx.id, path.display());
        println!("  message: {}", f.message);
        violations += 1;
        exit = exit.max(1);
    }
    for (sig, what) in &out.stats.known_seen {
        if is_known(&findings, ctx.id, sig) {
            println!("KNOWN-FINDING: property={} {} [{}]", ctx.id, what, sig);
        }
    }
    let mut invalid = false;
    if out.failure.is_none() {
        for c in &out.essential {
            if out.stats.classes.get(c).copied().unwrap_or(0) == 0 {
                eprintln!("INVALID RUN: essential class '{}' was never generated (generator regression)", c);
                invalid = true;
            }
        }
        for c in &out.forbidden {
            let n = out.stats.classes.get(c).copied().unwrap_or(0);
            if n != 0 {
                eprintln!("INVALID RUN: harness self-check class '{}' was hit {} times", c, n);
                invalid = true;
            }
        }
    }
    let wall = start.elapsed().as_secs_f64();
    if let Err(e) = write_evidence(&ctx, &out, wall, violations, (reg_run, reg_failed)) {
        eprintln!("cannot write evidence: {e}");
        invalid = true;
    }
    println!(
        "{} {} seed={} evaluations={} distinct_nontrivial={} violations={} wall={:.1}s",
        ctx.id,
        tier.name(),
        seed,
        out.stats.evaluations,
        out.stats.nontrivial.len(),
        violations,
        wall
    );
    if exit == 0 && invalid {
        exit = 2;
    }
    std::process::exit(exit);
}

/// Returns exit code: 0 ok (or listed known finding), 1 violation.
fn replay_file(ctx: &Ctx, prop: &props::PropDef, findings: &[Finding], file: &std::path::Path, verbose: bool) -> i32 {
    let text = match std::fs::read_to_string(file) {
        Ok(t) => t,
        Err(e) => {
            eprintln!("cannot read {}: {e}", file.display());
            return 2;
        }
    };
    let v: Value = match serde_json::from_str(&text) {
        Ok(v) => v,
        Err(e) => {
            eprintln!("cannot parse {}: {e}", file.display());
            return 2;
        }
    };
    let mut st = Stats::default();
    let r = no_panic("replay", || (prop.replay)(ctx, &v["case"], &mut st)).and_then(|r| r);
    let sig = v["signature"].as_str().unwrap_or("");
    match r {
        Ok(()) => {
            if verbose {
                println!("replay {}: property held", file.display());
            }
            if !sig.is_empty() && is_known(findings, ctx.id, sig) {
                eprintln!("NOTE: the witness {} of the listed known finding [{sig}] no longer fails: the defect was repaired or the witness is stale", file.display());
            }
            0
        }
        Err(m) => {
            if !sig.is_empty() && is_known(findings, ctx.id, sig) {
                println!("KNOWN-FINDING: property={} {} [{}]", ctx.id, v["what"].as_str().unwrap_or(&m), sig);
                0
            } else {
                println!("VIOLATION property={} replay={}", ctx.id, file.display());
                println!("  message: {m}");
                1
            }
        }
    }
}
