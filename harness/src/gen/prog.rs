//! Grammar-based generator of assembly programs (as `MStmt` lists) read from a tape:
//! well-formed programs by construction, a fault-injection catalogue, and statement soup.

use crate::model::stmt::*;
use crate::tape::Tape;

#[derive(Clone, Copy, Debug)]
pub struct ProgCfg {
    pub max_blocks: usize,
    pub max_stmts: usize,
    pub externals: bool,
    pub big: bool,
    /// allow `.external` statements inside blocks
    pub external_inside: bool,
    /// allow non-ASCII / escape-needing characters in strings
    pub wild_strings: bool,
    /// occasionally reserve a block of more than 21845 words (3 * len overflows u16)
    pub huge: bool,
}
impl Default for ProgCfg {
    fn default() -> Self {
        ProgCfg { max_blocks: 4, max_stmts: 40, externals: true, big: true, external_inside: true, wild_strings: true, huge: false }
    }
}

/// picks a name from `names` and returns a random-case spelling of it
fn pick_flipped(t: &mut Tape, names: &[String]) -> String {
    let l = names[t.pick(names.len())].clone();
    flip_case(t, &l)
}

fn reg(t: &mut Tape) -> u8 {
    t.pick(8) as u8
}

/// value for an N-bit signed field, biased to the extremes
pub fn signed_field(t: &mut Tape, bits: u32) -> i32 {
    let lo = -(1i32 << (bits - 1));
    let hi = (1i32 << (bits - 1)) - 1;
    match t.weighted(&[3, 2, 2, 2, 2, 6]) {
        0 => 0,
        1 => lo,
        2 => hi,
        3 => -1,
        4 => 1,
        _ => t.range(lo as i64, hi as i64) as i32,
    }
}

pub fn gen_string(t: &mut Tape, wild: bool) -> String {
    let len = match t.weighted(&[3, 8, 4, 1]) {
        0 => 0,
        1 => 1 + t.pick(6),
        2 => 6 + t.pick(20),
        _ => 40 + t.pick(200),
    };
    const TAME: &[char] = &['a', 'b', 'Z', '0', ' ', '!', ';', ',', ':', '#', '.', 'x', '-'];
    const WILD: &[char] = &['"', '\\', '\n', '\r', '\t', '\0', 'n', 'e', 'é', 'ı', '😀', '\u{7f}', '\'', '\u{1}'];
    let mut s = String::new();
    for _ in 0..len {
        if wild && t.chance(1, 3) {
            s.push(*t.choose(WILD));
        } else {
            s.push(*t.choose(TAME));
        }
    }
    s
}

/// A statement with placeholders: label operands are filled in later.
#[derive(Clone, Debug)]
enum Proto {
    Done(MKind),
    /// needs a label operand within reach (falls back to a numeric operand)
    PcLabel(MKind),
    /// `.fill LABEL` (any label, including externals)
    FillLabel,
}

fn gen_proto(t: &mut Tape, cfg: &ProgCfg) -> Proto {
    let use_label = t.chance(3, 5);
    let r = |t: &mut Tape| reg(t);
    match t.pick(34) {
        0 => Proto::Done(MKind::Add(r(t), r(t), Src2::Reg(r(t)))),
        1 => Proto::Done(MKind::Add(r(t), r(t), Src2::Imm(signed_field(t, 5)))),
        2 => Proto::Done(MKind::And(r(t), r(t), Src2::Reg(r(t)))),
        3 => Proto::Done(MKind::And(r(t), r(t), Src2::Imm(signed_field(t, 5)))),
        4 | 5 => {
            let cc = 1 + t.pick(7) as u8;
            let k = MKind::Br(cc, Opnd::Num(signed_field(t, 9)));
            if use_label { Proto::PcLabel(k) } else { Proto::Done(k) }
        }
        6 => Proto::Done(MKind::Jmp(r(t))),
        7 | 8 => {
            let k = MKind::Jsr(Opnd::Num(signed_field(t, 11)));
            if use_label { Proto::PcLabel(k) } else { Proto::Done(k) }
        }
        9 => Proto::Done(MKind::Jsrr(r(t))),
        10 | 11 => {
            let k = MKind::Ld(r(t), Opnd::Num(signed_field(t, 9)));
            if use_label { Proto::PcLabel(k) } else { Proto::Done(k) }
        }
        12 => {
            let k = MKind::Ldi(r(t), Opnd::Num(signed_field(t, 9)));
            if use_label { Proto::PcLabel(k) } else { Proto::Done(k) }
        }
        13 => Proto::Done(MKind::Ldr(r(t), r(t), signed_field(t, 6))),
        14 | 15 => {
            let k = MKind::Lea(r(t), Opnd::Num(signed_field(t, 9)));
            if use_label { Proto::PcLabel(k) } else { Proto::Done(k) }
        }
        16 => Proto::Done(MKind::Not(r(t), r(t))),
        17 => Proto::Done(MKind::Ret),
        18 => Proto::Done(MKind::Rti),
        19 => {
            let k = MKind::St(r(t), Opnd::Num(signed_field(t, 9)));
            if use_label { Proto::PcLabel(k) } else { Proto::Done(k) }
        }
        20 => {
            let k = MKind::Sti(r(t), Opnd::Num(signed_field(t, 9)));
            if use_label { Proto::PcLabel(k) } else { Proto::Done(k) }
        }
        21 => Proto::Done(MKind::Str(r(t), r(t), signed_field(t, 6))),
        22 => Proto::Done(MKind::Trap(match t.pick(4) {
            0 => 0,
            1 => 255,
            2 => 0x20 + t.pick(6) as i32,
            _ => t.pick(256) as i32,
        })),
        23 => match t.pick(3) {
            0 => Proto::Done(MKind::Nop(None)),
            1 => Proto::Done(MKind::Nop(Some(Opnd::Num(signed_field(t, 9))))),
            _ => Proto::PcLabel(MKind::Nop(Some(Opnd::Num(0)))),
        },
        24 => Proto::Done(match t.pick(7) {
            0 => MKind::Getc,
            1 => MKind::Out,
            2 => MKind::Putc,
            3 => MKind::Puts,
            4 => MKind::In,
            5 => MKind::Putsp,
            _ => MKind::Halt,
        }),
        25 | 26 => Proto::Done(MKind::Fill(Opnd::Num(match t.pick(6) {
            0 => 0,
            1 => -1,
            2 => -32768,
            3 => 65535,
            4 => 32768,
            _ => t.range(-32768, 65535) as i32,
        }))),
        27 | 28 => Proto::FillLabel,
        29 | 30 => Proto::Done(MKind::Blkw(if cfg.huge && t.chance(1, 12) { 21840 + t.pick(12000) as i32 } else if cfg.big && t.chance(1, 8) { 100 + t.pick(600) as i32 } else { 1 + t.pick(20) as i32 })),
        31 | 32 => Proto::Done(MKind::Stringz(gen_string(t, cfg.wild_strings))),
        _ => Proto::Done(MKind::Halt),
    }
}

struct ProtoStmt {
    labels: Vec<String>,
    proto: Proto,
}

struct Block {
    origin: u32,
    stmts: Vec<ProtoStmt>,
    /// labels attached to the `.end`
    end_labels: Vec<String>,
    /// `.external` statements placed inside the block: (index before which they go, name)
    inner_ext: Vec<(usize, String)>,
}
impl Block {
    fn len(&self) -> u32 {
        self.stmts.iter().map(|s| proto_size(&s.proto)).sum()
    }
}
fn proto_size(p: &Proto) -> u32 {
    match p {
        Proto::Done(k) | Proto::PcLabel(k) => k.size(),
        Proto::FillLabel => 1,
    }
}

/// Summary of a generated well-formed program (for classification).
#[derive(Clone, Debug, Default)]
pub struct GenInfo {
    pub blocks: usize,
    pub ends_at_io: bool,
    pub at_zero: bool,
    pub touching: bool,
    pub label_pc_operands: usize,
    pub extreme_offsets: usize,
    pub backward: usize,
    pub forward: usize,
    pub wrap_reach: usize,
    pub externals: usize,
    pub fill_external: usize,
}

/// Generates a program that satisfies every well-formedness condition by construction.
pub fn gen_wellformed(t: &mut Tape, cfg: &ProgCfg) -> (Vec<MStmt>, GenInfo) {
    let mut info = GenInfo::default();
    let nblocks = 1 + t.weighted(&[6, 3, 2, 1]).min(cfg.max_blocks - 1);
    let pool_size = 2 + t.pick(10);
    let mut pool = gen_label_pool(t, pool_size + 4);
    let ext_names: Vec<String> = if cfg.externals && t.chance(2, 5) {
        let n = 1 + t.pick(3);
        pool.split_off(pool.len() - n.min(4))
    } else {
        pool.truncate(pool_size);
        vec![]
    };
    let mut free_labels = pool.clone();
    let mut defined: Vec<String> = vec![];

    // 1. blocks with proto statements and label definitions
    let mut blocks: Vec<Block> = vec![];
    for _ in 0..nblocks {
        let n = match t.weighted(&[1, 6, 6, 3]) {
            0 => 0,
            1 => 1 + t.pick(5),
            2 => 4 + t.pick(12),
            _ => 10 + t.pick(cfg.max_stmts.max(11) - 10),
        };
        let mut stmts = vec![];
        for _ in 0..n {
            let mut labels = vec![];
            while !free_labels.is_empty() && t.chance(1, 4) {
                let l = free_labels.remove(t.pick(free_labels.len()));
                defined.push(l.clone());
                // harmless duplicate at the same address, in another spelling
                if t.chance(1, 12) {
                    labels.push(flip_case(t, &l));
                }
                labels.push(l);
            }
            stmts.push(ProtoStmt { labels, proto: gen_proto(t, cfg) });
        }
        let mut end_labels = vec![];
        if !free_labels.is_empty() && t.chance(1, 6) {
            let l = free_labels.remove(t.pick(free_labels.len()));
            defined.push(l.clone());
            end_labels.push(l);
        }
        blocks.push(Block { origin: 0, stmts, end_labels, inner_ext: vec![] });
    }

    // 2. origins: disjoint, within 0..=xFE00
    let mut placed: Vec<(u32, u32)> = vec![]; // non-empty (start,end)
    for bi in 0..blocks.len() {
        let len = blocks[bi].len();
        let mut origin = None;
        for _attempt in 0..6 {
            let cand: i64 = match t.weighted(&[3, 2, 2, 3, 2, 4]) {
                0 => 0x3000,
                1 => 0x0000,
                2 => 0x0200,
                3 => 0xFE00 - len as i64,
                4 => placed.get(t.pick(placed.len().max(1))).map(|p| p.1 as i64).unwrap_or(0x4000), // touching
                _ => t.range(0, 0xFE00) as i64,
            };
            if cand < 0 || cand as u32 + len > 0xFE00 {
                continue;
            }
            let c = cand as u32;
            if len > 0 && placed.iter().any(|&(s, e)| c < e && s < c + len) {
                continue;
            }
            origin = Some(c);
            break;
        }
        let origin = match origin {
            Some(o) => o,
            None => {
                // first gap after the highest placed block, else shrink the block to nothing
                let top = placed.iter().map(|p| p.1).max().unwrap_or(0x3000);
                if top + len <= 0xFE00 {
                    top
                } else {
                    blocks[bi].stmts.iter_mut().for_each(|s| s.labels.clear());
                    blocks[bi].stmts.clear();
                    0x3000
                }
            }
        };
        let len = blocks[bi].len();
        blocks[bi].origin = origin;
        if len > 0 {
            if placed.iter().any(|&(s, e)| e == origin || s == origin + len) {
                info.touching = true;
            }
            placed.push((origin, origin + len));
            if origin + len == 0xFE00 {
                info.ends_at_io = true;
            }
            if origin == 0 {
                info.at_zero = true;
            }
        }
    }
    info.blocks = blocks.len();

    // labels that were dropped together with a cleared block are no longer defined
    let mut label_addr: Vec<(String, u16)> = vec![];
    for b in &blocks {
        let mut a = b.origin;
        for s in &b.stmts {
            for l in &s.labels {
                label_addr.push((l.clone(), a as u16));
            }
            a += proto_size(&s.proto);
        }
        for l in &b.end_labels {
            label_addr.push((l.clone(), a as u16));
        }
    }
    let _ = defined;

    // 3. externals: where do the declarations go
    let mut outer_ext: Vec<(usize, String)> = vec![]; // (block index before which it goes; == blocks.len() -> at the end)
    for e in &ext_names {
        info.externals += 1;
        if cfg.external_inside && t.chance(1, 4) && !blocks.is_empty() {
            let bi = t.pick(blocks.len());
            let pos = t.pick(blocks[bi].stmts.len() + 1);
            blocks[bi].inner_ext.push((pos, e.clone()));
        } else {
            outer_ext.push((t.pick(blocks.len() + 1), e.clone()));
        }
    }

    // 4. resolve label operands and emit
    let mut prog: Vec<MStmt> = vec![];
    let nb = blocks.len();
    for (bi, b) in blocks.into_iter().enumerate() {
        for (_, e) in outer_ext.iter().filter(|(p, _)| *p == bi) {
            prog.push(MStmt { labels: vec![], kind: MKind::External(e.clone()) });
        }
        prog.push(MStmt { labels: vec![], kind: MKind::Orig(b.origin as i32) });
        let mut a = b.origin;
        let nstmts = b.stmts.len();
        for (si, s) in b.stmts.into_iter().enumerate() {
            for (_, e) in b.inner_ext.iter().filter(|(p, _)| *p == si) {
                prog.push(MStmt { labels: vec![], kind: MKind::External(e.clone()) });
            }
            let size = proto_size(&s.proto);
            let kind = match s.proto {
                Proto::Done(k) => k,
                Proto::FillLabel => {
                    let n_all = label_addr.len() + ext_names.len();
                    if n_all == 0 {
                        MKind::Fill(Opnd::Num(0))
                    } else {
                        let i = t.pick(n_all);
                        let name = if i < label_addr.len() {
                            label_addr[i].0.clone()
                        } else {
                            info.fill_external += 1;
                            ext_names[i - label_addr.len()].clone()
                        };
                        MKind::Fill(Opnd::Lab(flip_case(t, &name)))
                    }
                }
                Proto::PcLabel(k) => {
                    let bits = if matches!(k, MKind::Jsr(_)) { 11 } else { 9 };
                    let lo = -(1i32 << (bits - 1));
                    let hi = (1i32 << (bits - 1)) - 1;
                    let pc = (a as u16).wrapping_add(1);
                    let mut reach: Vec<(&String, i32)> = label_addr
                        .iter()
                        .map(|(n, la)| (n, la.wrapping_sub(pc) as i16 as i32))
                        .filter(|(_, off)| *off >= lo && *off <= hi)
                        .collect();
                    if reach.is_empty() {
                        k
                    } else {
                        reach.sort_by_key(|(_, off)| *off);
                        let (name, off) = match t.pick(4) {
                            0 => reach[0].clone(),
                            1 => reach[reach.len() - 1].clone(),
                            _ => reach[t.pick(reach.len())].clone(),
                        };
                        info.label_pc_operands += 1;
                        if off == lo || off == hi {
                            info.extreme_offsets += 1;
                        }
                        if off < 0 {
                            info.backward += 1;
                        } else {
                            info.forward += 1;
                        }
                        let la = label_addr.iter().find(|(n, _)| n == name).unwrap().1;
                        if (la as i32 - pc as i32) != off {
                            info.wrap_reach += 1;
                        }
                        let o = Opnd::Lab(flip_case(t, name));
                        match k {
                            MKind::Br(cc, _) => MKind::Br(cc, o),
                            MKind::Jsr(_) => MKind::Jsr(o),
                            MKind::Ld(r, _) => MKind::Ld(r, o),
                            MKind::Ldi(r, _) => MKind::Ldi(r, o),
                            MKind::Lea(r, _) => MKind::Lea(r, o),
                            MKind::St(r, _) => MKind::St(r, o),
                            MKind::Sti(r, _) => MKind::Sti(r, o),
                            MKind::Nop(_) => MKind::Nop(Some(o)),
                            other => other,
                        }
                    }
                }
            };
            prog.push(MStmt { labels: s.labels, kind });
            a += size;
        }
        // `.external` positioned after the last statement of the block
        for (_, e) in b.inner_ext.iter().filter(|(p, _)| *p >= nstmts) {
            prog.push(MStmt { labels: vec![], kind: MKind::External(e.clone()) });
        }
        prog.push(MStmt { labels: b.end_labels, kind: MKind::End });
    }
    for (_, e) in outer_ext.iter().filter(|(p, _)| *p == nb) {
        prog.push(MStmt { labels: vec![], kind: MKind::External(e.clone()) });
    }
    // a label may also sit on an `.external` line inside a block: it names the current location, i.e. the
    // address of the statement that follows, so the first label of that statement can move up
    let mut open = false;
    for i in 0..prog.len().saturating_sub(1) {
        match prog[i].kind {
            MKind::Orig(_) => open = true,
            MKind::End => open = false,
            MKind::External(_) if open && prog[i].labels.is_empty() && !prog[i + 1].labels.is_empty() && !matches!(prog[i + 1].kind, MKind::Orig(_)) => {
                if t.chance(1, 3) {
                    let l = prog[i + 1].labels.remove(0);
                    prog[i].labels.push(l);
                }
            }
            _ => {}
        }
    }
    (prog, info)
}

// ---------------------------------------------------------------------------------
// Fault injection (C02 / C26)

/// Applies one fault from the catalogue; returns its name (or None if not applicable).
pub fn inject_fault(t: &mut Tape, prog: &mut Vec<MStmt>) -> Option<&'static str> {
    use crate::model::asm::asm_model;
    let idx_of = |prog: &Vec<MStmt>, f: &dyn Fn(&MKind) -> bool| -> Vec<usize> { prog.iter().enumerate().filter(|(_, s)| f(&s.kind)).map(|(i, _)| i).collect() };
    let origs = idx_of(prog, &|k| matches!(k, MKind::Orig(_)));
    let ends = idx_of(prog, &|k| matches!(k, MKind::End));
    let fresh = |t: &mut Tape, prog: &Vec<MStmt>| -> String {
        let base = gen_label_pool(t, 1).pop().unwrap();
        let mut k = 0u32;
        loop {
            let l = if k == 0 { format!("{base}_q") } else { format!("{base}_q{k}") };
            k += 1;
            let used = prog.iter().any(|s| {
                s.labels.iter().any(|x| x.eq_ignore_ascii_case(&l))
                    || s.kind.label_operand().is_some_and(|x| x.eq_ignore_ascii_case(&l))
                    || matches!(&s.kind, MKind::External(x) if x.eq_ignore_ascii_case(&l))
            });
            if !used {
                return l;
            }
        }
    };
    let all_labels: Vec<String> = prog.iter().flat_map(|s| s.labels.iter().cloned()).collect();
    match t.pick(22) {
        0 => {
            let &i = origs.get(t.pick(origs.len().max(1)))?;
            prog.remove(i);
            Some("drop-orig")
        }
        1 => {
            let &i = ends.get(t.pick(ends.len().max(1)))?;
            prog.remove(i);
            Some("drop-end")
        }
        2 => {
            // nested .orig: insert an .orig inside a block
            let &i = origs.get(t.pick(origs.len().max(1)))?;
            let a = t.range(0, 0xFDFF) as i32;
            prog.insert(i + 1, MStmt { labels: vec![], kind: MKind::Orig(a) });
            Some("nested-orig")
        }
        3 => {
            let pos = t.pick(prog.len() + 1);
            prog.insert(pos, MStmt { labels: vec![], kind: MKind::End });
            Some("extra-end")
        }
        4 => {
            // statement outside any block (start or end of file)
            let k = if t.chance(1, 2) { MKind::Halt } else { MKind::Fill(Opnd::Num(7)) };
            let labels = if t.chance(1, 3) { vec![fresh(t, prog)] } else { vec![] };
            if t.chance(1, 2) {
                prog.insert(0, MStmt { labels, kind: k });
            } else {
                prog.push(MStmt { labels, kind: k });
            }
            Some("stmt-outside")
        }
        5 => {
            // label on an .orig (outside a block unless nested)
            let &i = origs.get(t.pick(origs.len().max(1)))?;
            let l = fresh(t, prog);
            prog[i].labels.push(l);
            Some("label-on-orig")
        }
        6 => {
            // duplicate label (case-flipped) on another statement
            if all_labels.is_empty() {
                return None;
            }
            let l = pick_flipped(t, &all_labels);
            let i = t.pick(prog.len());
            prog[i].labels.push(l);
            Some("duplicate-label")
        }
        7 => {
            // `.external X` where X is (maybe) defined
            if all_labels.is_empty() {
                return None;
            }
            let l = pick_flipped(t, &all_labels);
            let pos = t.pick(prog.len() + 1);
            prog.insert(pos, MStmt { labels: vec![], kind: MKind::External(l) });
            Some("external-vs-defined")
        }
        8 => {
            // undefined label operand
            let cands = idx_of(prog, &|k| k.label_operand().is_some());
            let &i = cands.get(t.pick(cands.len().max(1)))?;
            let l = fresh(t, prog);
            set_label_operand(&mut prog[i].kind, l);
            Some("undefined-label")
        }
        9 | 10 | 11 | 12 => {
            let beyond = t.chance(1, 2);
            reach_gadget(t, prog, beyond)
        }
        13 => {
            // external label as PC-relative operand
            let cands = idx_of(prog, &|k| pc_bits(k).is_some());
            let &i = cands.get(t.pick(cands.len().max(1)))?;
            let exts: Vec<String> = prog.iter().filter_map(|s| if let MKind::External(l) = &s.kind { Some(l.clone()) } else { None }).collect();
            let l = if exts.is_empty() || t.chance(1, 3) {
                let l = fresh(t, prog);
                let pos = if t.chance(1, 2) { 0 } else { prog.len() };
                prog.insert(pos, MStmt { labels: vec![], kind: MKind::External(l.clone()) });
                l
            } else {
                exts[t.pick(exts.len())].clone()
            };
            let i = if prog[0].kind == MKind::External(l.clone()) && i + 1 < prog.len() && pc_bits(&prog[i].kind).is_none() { i + 1 } else { i };
            if pc_bits(&prog[i].kind).is_none() {
                return None;
            }
            set_label_operand(&mut prog[i].kind, flip_case(t, &l));
            Some("external-pc-operand")
        }
        14 | 15 | 16 => {
            // move a block so that it ends at an interesting boundary
            let &i = origs.get(t.pick(origs.len().max(1)))?;
            let len: u32 = prog[i + 1..].iter().take_while(|s| !matches!(s.kind, MKind::End | MKind::Orig(_))).map(|s| s.kind.size()).sum();
            let (end, name): (i64, &'static str) = match t.pick(6) {
                0 => (0xFE00, "end-at-xFE00"),
                1 => (0xFE01, "end-at-xFE01"),
                2 => (0x10000, "end-at-x10000"),
                3 => (0x10001, "end-at-x10001"),
                4 => (0xFFFF, "end-at-xFFFF"),
                _ => (0x10000 + t.range(2, 500), "end-beyond"),
            };
            let o = end - len as i64;
            if !(0..=0xFFFF).contains(&o) {
                return None;
            }
            prog[i].kind = MKind::Orig(o as i32);
            Some(name)
        }
        17 => {
            // huge .blkw (jumps over / into the I/O page or wraps)
            let &i = origs.get(t.pick(origs.len().max(1)))?;
            let n = match t.pick(3) {
                0 => 0xFFFF,
                1 => 0xD000,
                _ => t.range(0x8000, 0xFFFF) as i32,
            };
            prog.insert(i + 1, MStmt { labels: vec![], kind: MKind::Blkw(n) });
            Some("huge-blkw")
        }
        18 | 19 => {
            // overlapping / touching / identical / enclosing blocks
            if origs.len() < 2 {
                return None;
            }
            let a = origs[t.pick(origs.len())];
            let b = origs[t.pick(origs.len())];
            if a == b {
                return None;
            }
            let len = |i: usize| -> i64 { prog[i + 1..].iter().take_while(|s| !matches!(s.kind, MKind::End | MKind::Orig(_))).map(|s| s.kind.size() as i64).sum() };
            let (la, lb) = (len(a), len(b));
            let MKind::Orig(oa) = prog[a].kind else { return None };
            let oa = oa as i64;
            let (nb, name): (i64, &'static str) = match t.pick(6) {
                0 => (oa, "blocks-identical-origin"),
                1 => (oa + la, "blocks-touching-after"),
                2 => (oa - lb, "blocks-touching-before"),
                3 => (oa + la - 1, "blocks-overlap-last-word"),
                4 => (oa - lb + 1, "blocks-overlap-first-word"),
                _ => (oa + t.range(0, la.max(1) - 1), "blocks-enclosed"),
            };
            if !(0..=0xFFFF).contains(&nb) {
                return None;
            }
            prog[b].kind = MKind::Orig(nb as i32);
            Some(name)
        }
        20 => {
            // empty block anywhere (always allowed)
            let a = match t.pick(4) {
                0 => 0xFE00,
                1 => 0xFFFF,
                2 => 0xFE02,
                _ => t.range(0, 0xFFFF) as i32,
            };
            let pos = if t.chance(1, 2) { 0 } else { prog.len() };
            prog.insert(pos, MStmt { labels: vec![], kind: MKind::End });
            prog.insert(pos, MStmt { labels: vec![], kind: MKind::Orig(a) });
            Some("empty-block")
        }
        _ => {
            // label on a statement outside blocks: `.external` with a label, before any block
            let l = fresh(t, prog);
            let e = fresh(t, prog);
            prog.insert(0, MStmt { labels: vec![l], kind: MKind::External(format!("{e}x")) });
            Some("label-on-outer-external")
        }
    }
}

/// Makes one PC-relative instruction refer to a fresh label placed exactly at the edge of
/// its reach (`beyond == false`, still well-formed) or one step beyond it.
pub fn reach_gadget(t: &mut Tape, prog: &mut Vec<MStmt>, beyond: bool) -> Option<&'static str> {
    use crate::model::asm::asm_model;
    let cands: Vec<usize> = prog.iter().enumerate().filter(|(_, s)| pc_bits(&s.kind).is_some()).map(|(i, _)| i).collect();
    let &i = cands.get(t.pick(cands.len().max(1)))?;
    let m = asm_model(prog);
    if !m.violations.is_empty() {
        return None;
    }
    let bits = pc_bits(&prog[i].kind).unwrap();
    let half = 1i32 << (bits - 1);
    let mut l = gen_label_pool(t, 1).pop().unwrap();
    l.push_str("_q");
    while prog.iter().any(|s| s.labels.iter().any(|x| x.eq_ignore_ascii_case(&l)) || matches!(&s.kind, MKind::External(x) if x.eq_ignore_ascii_case(&l))) {
        l.push('q');
    }
    set_label_operand(&mut prog[i].kind, l.clone());
    if t.chance(1, 2) {
        // forward: [instr][.blkw gap][L .fill]  => off = gap
        let gap = if beyond { half } else { half - 1 };
        prog.insert(i + 1, MStmt { labels: vec![l], kind: MKind::Fill(Opnd::Num(0)) });
        if gap > 0 {
            prog.insert(i + 1, MStmt { labels: vec![], kind: MKind::Blkw(gap) });
        }
        Some(if beyond { "reach-forward-beyond" } else { "reach-forward-edge" })
    } else {
        // backward: [L .fill][.blkw gap][instr] => off = -(gap+2)
        let gap = if beyond { half - 1 } else { half - 2 };
        if gap > 0 {
            prog.insert(i, MStmt { labels: vec![], kind: MKind::Blkw(gap) });
        }
        prog.insert(i, MStmt { labels: vec![l], kind: MKind::Fill(Opnd::Num(0)) });
        Some(if beyond { "reach-backward-beyond" } else { "reach-backward-edge" })
    }
}

pub fn pc_bits(k: &MKind) -> Option<u32> {
    match k {
        MKind::Br(..) | MKind::Ld(..) | MKind::Ldi(..) | MKind::Lea(..) | MKind::St(..) | MKind::Sti(..) | MKind::Nop(Some(_)) => Some(9),
        MKind::Jsr(_) => Some(11),
        _ => None,
    }
}

pub fn set_label_operand(k: &mut MKind, l: String) {
    let o = Opnd::Lab(l);
    match k {
        MKind::Br(_, x) | MKind::Jsr(x) | MKind::Ld(_, x) | MKind::Ldi(_, x) | MKind::Lea(_, x) | MKind::St(_, x) | MKind::Sti(_, x) | MKind::Fill(x) => *x = o,
        MKind::Nop(x) => *x = Some(o),
        _ => {}
    }
}

/// Unstructured statement sequence (any order of directives and instructions).
pub fn gen_soup(t: &mut Tape, cfg: &ProgCfg) -> Vec<MStmt> {
    let n = t.pick(14);
    let pool = gen_label_pool(t, 4);
    let mut prog = vec![];
    for _ in 0..n {
        let mut labels = vec![];
        if t.chance(1, 4) {
            labels.push(pick_flipped(t, &pool));
        }
        let kind = match t.pick(10) {
            0 | 1 => MKind::Orig(*t.choose(&[0x3000, 0x3001, 0x3002, 0xFDFF, 0xFE00, 0x0000, 0xFFFF])),
            2 | 3 => MKind::End,
            4 => MKind::External(pick_flipped(t, &pool)),
            5 => MKind::Fill(Opnd::Lab(pick_flipped(t, &pool))),
            6 => MKind::Br(7, Opnd::Lab(pick_flipped(t, &pool))),
            7 => MKind::Blkw(1 + t.pick(3) as i32),
            _ => match gen_proto(t, cfg) {
                Proto::Done(k) | Proto::PcLabel(k) => k,
                Proto::FillLabel => MKind::Fill(Opnd::Num(1)),
            },
        };
        prog.push(MStmt { labels, kind });
    }
    prog
}

/// Free-form statement list for the parser: every statement is individually valid
/// (operands fit their fields) but the program need not be assemblable.
pub fn gen_freeform(t: &mut Tape, cfg: &ProgCfg, unicode_labels: bool) -> Vec<MStmt> {
    let n = match t.weighted(&[1, 4, 6, 3]) {
        0 => 0,
        1 => 1 + t.pick(4),
        2 => 5 + t.pick(10),
        _ => 15 + t.pick(25),
    };
    let npool = 2 + t.pick(6);
    let mut pool = gen_label_pool(t, npool);
    if unicode_labels {
        const SUFFIX: &[&str] = &["é", "ß", "日本", "ı", "Ω9", "_ñ"];
        for l in pool.iter_mut() {
            if t.chance(1, 4) {
                let sfx: &str = SUFFIX[t.pick(SUFFIX.len())];
                // whether Unicode case folding can turn an identifier into a keyword ("rtı" -> RTI) is
                // not specified by the grammar; such names are not generated
                let cand = format!("{l}{sfx}");
                if !KEYWORDS.contains(&cand.to_uppercase().as_str()) {
                    *l = cand;
                }
            }
        }
    }
    let mut prog = vec![];
    for _ in 0..n {
        let mut labels = vec![];
        while labels.len() < 3 && t.chance(1, 4) {
            labels.push(pick_flipped_any(t, &pool));
        }
        let kind = match t.pick(12) {
            0 => MKind::Orig(match t.pick(4) {
                0 => 0x3000,
                1 => 0,
                2 => 0xFFFF,
                _ => t.range(0, 0xFFFF) as i32,
            }),
            1 => MKind::End,
            2 => MKind::External(pick_flipped_any(t, &pool)),
            _ => match gen_proto(t, cfg) {
                Proto::Done(k) => k,
                Proto::FillLabel => MKind::Fill(Opnd::Lab(pick_flipped_any(t, &pool))),
                Proto::PcLabel(mut k) => {
                    set_label_operand(&mut k, pick_flipped_any(t, &pool));
                    k
                }
            },
        };
        prog.push(MStmt { labels, kind });
    }
    prog
}

fn pick_flipped_any(t: &mut Tape, names: &[String]) -> String {
    let l = names[t.pick(names.len())].clone();
    if l.is_ascii() {
        flip_case(t, &l)
    } else {
        l
    }
}
