//! Tape decoders (generators).
pub mod prog;
pub mod link;
pub mod exec;
