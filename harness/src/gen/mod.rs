//! Tape decoders (generators).
