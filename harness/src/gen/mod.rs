//! Tape decoders (generators).
pub mod prog;
