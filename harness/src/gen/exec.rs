//! ProgGen: executable user programs at x3000 that terminate by construction
//! (straight-line snippets, counted loops, nested subroutines saving R7 on the stack,
//! I/O traps, final HALT or one injected fault), encoded with the independent encoder.

use crate::model::isa::{self, MInstr, Src};
use crate::tape::Tape;

#[derive(Clone, Copy, Debug, PartialEq, Eq, Hash)]
pub enum Ending {
    Halt,
    AcvLoad,
    AcvStore,
    JumpOut,
    Rti,
    Illegal,
    BadFormat,
}
impl Ending {
    /// the message the OS prints for this ending under real traps
    pub fn os_message(self) -> &'static str {
        match self {
            Ending::Halt => "",
            Ending::AcvLoad | Ending::AcvStore | Ending::JumpOut => "\n--- Access violation ---",
            Ending::Rti => "\n--- Privilege violation ---",
            Ending::Illegal | Ending::BadFormat => "\n--- Illegal opcode ---",
        }
    }
}

#[derive(Clone, Debug)]
enum Item {
    I(MInstr),
    Br(u8, usize),
    Jsr(usize),
    Ld(u8, usize),
    St(u8, usize),
    Ldi(u8, usize),
    Sti(u8, usize),
    Lea(u8, usize),
    Word(u16),
    AddrOf(usize),
    Label(usize),
}

#[derive(Clone, Debug, Default)]
pub struct ExecInfo {
    pub calls: usize,
    pub traps: usize,
    pub loops: usize,
    pub io_in: usize,
    pub max_nest: usize,
    pub unbalanced_ret: bool,
    /// the injected fault happens while a subroutine frame is open (a JSR without its RET precedes it)
    pub fault_in_open_frame: bool,
    /// a leaf subroutine that does not save R7 executes an I/O trap and then returns through R7
    pub trap_in_leaf_without_r7_spill: bool,
}

#[derive(Clone, Debug)]
pub struct ExecProg {
    pub origin: u16,
    pub words: Vec<u16>,
    pub kbd: Vec<u8>,
    pub ending: Ending,
    pub info: ExecInfo,
    /// addresses of subroutine entry points
    pub subs: Vec<u16>,
    /// listing for humans
    pub listing: Vec<String>,
}

#[derive(Clone, Copy, Debug)]
pub struct ExecCfg {
    pub allow_fault: bool,
    pub allow_io: bool,
    pub allow_input: bool,
    pub max_snippets: usize,
    /// extra RETs at top level (frame underflow) - only for C27
    pub unbalanced: bool,
}
impl Default for ExecCfg {
    fn default() -> Self {
        ExecCfg { allow_fault: true, allow_io: true, allow_input: true, max_snippets: 10, unbalanced: false }
    }
}

struct G<'a, 'b> {
    t: &'a mut Tape<'b>,
    items: Vec<Item>,
    data: Vec<Item>,
    nlabels: usize,
    kbd: Vec<u8>,
    info: ExecInfo,
    cfg: ExecCfg,
    nsubs: usize,
    sub_labels: Vec<usize>,
}

impl<'a, 'b> G<'a, 'b> {
    fn label(&mut self) -> usize {
        self.nlabels += 1;
        self.nlabels - 1
    }
    fn reg(&mut self) -> u8 {
        self.t.pick(6) as u8
    }
    fn reg_not(&mut self, avoid: &[u8]) -> u8 {
        let c: Vec<u8> = (0..6u8).filter(|r| !avoid.contains(r)).collect();
        c[self.t.pick(c.len())]
    }
    fn data_word(&mut self, v: u16) -> usize {
        let l = self.label();
        self.data.push(Item::Label(l));
        self.data.push(Item::Word(v));
        l
    }
    fn data_string(&mut self, packed: bool) -> usize {
        let l = self.label();
        self.data.push(Item::Label(l));
        let n = self.t.pick(8);
        let bytes: Vec<u8> = (0..n).map(|_| *self.t.choose(&[b'a', b'Z', b'0', b' ', b'!', 0x01, 0x7F, 0xFF, 0x80, b'\n'])).collect();
        if packed {
            for ch in bytes.chunks(2) {
                let lo = ch[0] as u16;
                let hi = ch.get(1).copied().unwrap_or(0) as u16;
                self.data.push(Item::Word(lo | (hi << 8)));
            }
            if bytes.len() % 2 == 0 {
                self.data.push(Item::Word(0));
            }
        } else {
            for b in &bytes {
                self.data.push(Item::Word(*b as u16));
            }
            self.data.push(Item::Word(0));
        }
        l
    }

    /// ALU / memory snippet over R0-R5 excluding `locked` registers
    fn simple(&mut self, out: &mut Vec<Item>, locked: &[u8]) {
        let d = self.reg_not(locked);
        match self.t.pick(9) {
            0 => out.push(Item::I(MInstr::Add { dr: d, sr1: self.reg(), src: Src::Imm(self.t.range(-16, 15) as i16) })),
            1 => out.push(Item::I(MInstr::Add { dr: d, sr1: self.reg(), src: Src::Reg(self.reg()) })),
            2 => out.push(Item::I(MInstr::And { dr: d, sr1: self.reg(), src: Src::Imm(self.t.range(-16, 15) as i16) })),
            3 => out.push(Item::I(MInstr::Not { dr: d, sr: self.reg() })),
            4 => {
                let v = self.t.u16();
                let l = self.data_word(v);
                out.push(Item::Ld(d, l));
            }
            5 => {
                let l = self.data_word(0);
                let s = self.reg();
                out.push(Item::St(s, l));
            }
            6 => {
                // pointer access through LEA + LDR/STR
                let v = self.t.u16();
                let l = self.data_word(v);
                let p = self.reg_not(locked);
                out.push(Item::Lea(p, l));
                if self.t.chance(1, 2) {
                    let d2 = self.reg_not(locked);
                    out.push(Item::I(MInstr::Ldr { dr: d2, base: p, off: 0 }));
                } else {
                    let s = self.reg();
                    out.push(Item::I(MInstr::Str { sr: s, base: p, off: 0 }));
                }
            }
            7 => {
                // indirect through a pointer cell
                let v = self.t.u16();
                let target = self.data_word(v);
                let cell = self.label();
                self.data.push(Item::Label(cell));
                self.data.push(Item::AddrOf(target));
                if self.t.chance(1, 2) {
                    out.push(Item::Ldi(d, cell));
                } else {
                    let s = self.reg();
                    out.push(Item::Sti(s, cell));
                }
            }
            _ => {
                // stack push/pop of a register
                let s = self.reg();
                out.push(Item::I(MInstr::Add { dr: 6, sr1: 6, src: Src::Imm(-1) }));
                out.push(Item::I(MInstr::Str { sr: s, base: 6, off: 0 }));
                out.push(Item::I(MInstr::Ldr { dr: d, base: 6, off: 0 }));
                out.push(Item::I(MInstr::Add { dr: 6, sr1: 6, src: Src::Imm(1) }));
            }
        }
    }

    fn io(&mut self, out: &mut Vec<Item>) {
        self.info.traps += 1;
        let kinds = if self.cfg.allow_input { 5 } else { 3 };
        match self.t.pick(kinds) {
            0 => {
                let ch = *self.t.choose(&[b'A' as u16, b'\n' as u16, 0x00, 0xFF, 0x1234, 0x80]);
                let l = self.data_word(ch);
                out.push(Item::Ld(0, l));
                out.push(Item::I(MInstr::Trap { vect: 0x21 }));
            }
            1 => {
                let l = self.data_string(false);
                out.push(Item::Lea(0, l));
                out.push(Item::I(MInstr::Trap { vect: 0x22 }));
            }
            2 => {
                let l = self.data_string(true);
                out.push(Item::Lea(0, l));
                out.push(Item::I(MInstr::Trap { vect: 0x24 }));
            }
            3 => {
                self.kbd.push(self.t.u8());
                self.info.io_in += 1;
                out.push(Item::I(MInstr::Trap { vect: 0x20 }));
            }
            _ => {
                self.kbd.push(self.t.u8());
                self.info.io_in += 1;
                out.push(Item::I(MInstr::Trap { vect: 0x23 }));
            }
        }
    }

    fn call(&mut self, out: &mut Vec<Item>, depth: usize, locked: &[u8]) {
        // subroutine bodies do not know which registers a surrounding loop has locked
        if self.sub_labels.is_empty() || !locked.is_empty() {
            return self.simple(out, locked);
        }
        // only call subroutines with a higher index than the current nesting (no recursion)
        let cands: Vec<usize> = (depth..self.sub_labels.len()).collect();
        if cands.is_empty() {
            return self.simple(out, locked);
        }
        let k = cands[self.t.pick(cands.len())];
        self.info.calls += 1;
        self.info.max_nest = self.info.max_nest.max(depth + 1);
        if self.t.chance(1, 2) {
            out.push(Item::Jsr(self.sub_labels[k]));
        } else {
            let p = self.reg_not(locked);
            out.push(Item::Lea(p, self.sub_labels[k]));
            out.push(Item::I(MInstr::Jsrr { base: p }));
        }
    }

    fn snippet(&mut self, out: &mut Vec<Item>, depth: usize, locked: &[u8], allow_loop: bool) {
        match self.t.weighted(&[6, 2, 2, 2]) {
            0 => self.simple(out, locked),
            1 if self.cfg.allow_io => self.io(out),
            2 => self.call(out, depth, locked),
            3 if allow_loop => {
                // counted loop; the counter register is locked inside the body
                self.info.loops += 1;
                let c = self.reg_not(locked);
                let n = 1 + self.t.pick(5) as i16;
                let top = self.label();
                out.push(Item::I(MInstr::And { dr: c, sr1: c, src: Src::Imm(0) }));
                out.push(Item::I(MInstr::Add { dr: c, sr1: c, src: Src::Imm(n) }));
                out.push(Item::Label(top));
                let mut l2 = locked.to_vec();
                l2.push(c);
                // traps clobber nothing but R0 (GETC/IN); keep R0 out of counter use
                let nb = 1 + self.t.pick(3);
                for _ in 0..nb {
                    if c == 0 {
                        self.simple(out, &l2);
                    } else {
                        self.snippet(out, depth, &l2, false);
                    }
                }
                out.push(Item::I(MInstr::Add { dr: c, sr1: c, src: Src::Imm(-1) }));
                out.push(Item::Br(0b001, top));
            }
            _ => self.simple(out, locked),
        }
    }
}

/// Generates a program. `None` only if an offset does not fit (never observed with the size limits used).
/// Never fails: if an offset would not fit (not observed with the size limits used) a trivial HALT program is returned.
pub fn gen_exec(t: &mut Tape, cfg: &ExecCfg) -> Option<ExecProg> {
    Some(gen_exec_inner(t, cfg).unwrap_or_else(|| ExecProg {
        origin: 0x3000,
        words: vec![0xF025],
        kbd: vec![],
        ending: Ending::Halt,
        info: ExecInfo::default(),
        subs: vec![],
        listing: vec!["x3000  HALT (fallback)".into()],
    }))
}

fn gen_exec_inner(t: &mut Tape, cfg: &ExecCfg) -> Option<ExecProg> {
    let mut g = G { t, items: vec![], data: vec![], nlabels: 0, kbd: vec![], info: ExecInfo::default(), cfg: *cfg, nsubs: 0, sub_labels: vec![] };
    g.nsubs = g.t.pick(4);
    for _ in 0..g.nsubs {
        let l = g.label();
        g.sub_labels.push(l);
    }
    // main: stack init
    let stack = g.data_word(0xFD00);
    let mut main = vec![Item::Ld(6, stack)];
    // clear the working registers so that strict mode has nothing to complain about
    for r in 0..6u8 {
        main.push(Item::I(MInstr::And { dr: r, sr1: r, src: Src::Imm(0) }));
    }
    let n = 1 + g.t.pick(cfg.max_snippets);
    for _ in 0..n {
        g.snippet(&mut main, 0, &[], true);
    }
    if cfg.unbalanced && g.t.chance(1, 3) {
        // RET at top level to a known place: frame underflow
        let back = g.label();
        main.push(Item::Lea(7, back));
        main.push(Item::I(MInstr::Jmp { base: 7 }));
        main.push(Item::Label(back));
        g.info.unbalanced_ret = true;
    }
    let ending = if cfg.allow_fault && g.t.chance(1, 2) {
        *g.t.choose(&[Ending::AcvLoad, Ending::AcvStore, Ending::JumpOut, Ending::Rti, Ending::Illegal, Ending::BadFormat])
    } else {
        Ending::Halt
    };
    if ending != Ending::Halt && g.t.chance(1, 2) {
        // the fault happens inside a call: JSR to the next instruction opens a frame that is never closed
        let l = g.label();
        main.push(Item::Jsr(l));
        main.push(Item::Label(l));
        g.info.fault_in_open_frame = true;
    }
    match ending {
        Ending::Halt => main.push(Item::I(MInstr::Trap { vect: 0x25 })),
        Ending::AcvLoad => {
            main.push(Item::I(MInstr::And { dr: 1, sr1: 1, src: Src::Imm(0) }));
            main.push(Item::I(MInstr::Ldr { dr: 0, base: 1, off: 5 }));
        }
        Ending::AcvStore => {
            main.push(Item::I(MInstr::And { dr: 1, sr1: 1, src: Src::Imm(0) }));
            main.push(Item::I(MInstr::Add { dr: 1, sr1: 1, src: Src::Imm(-2) }));
            main.push(Item::I(MInstr::Str { sr: 0, base: 1, off: 0 }));
        }
        Ending::JumpOut => {
            main.push(Item::I(MInstr::And { dr: 1, sr1: 1, src: Src::Imm(0) }));
            main.push(Item::I(MInstr::Jmp { base: 1 }));
        }
        Ending::Rti => main.push(Item::I(MInstr::Rti)),
        Ending::Illegal => main.push(Item::Word(0xD123)),
        Ending::BadFormat => main.push(Item::Word(0x8001)),
    }
    // safety net after the ending (never reached)
    main.push(Item::I(MInstr::Trap { vect: 0x25 }));
    g.items = main;
    // subroutines: save R7, body, restore, RET
    for k in 0..g.nsubs {
        // the last subroutine cannot call another one (no recursion): half of the time it is a leaf routine that does
        // not spill R7 - the OS routines return with RTI, so an I/O trap inside it leaves R7 alone
        let leaf = k + 1 == g.nsubs && g.t.chance(1, 2);
        let mut body = vec![Item::Label(g.sub_labels[k])];
        if !leaf {
            body.push(Item::I(MInstr::Add { dr: 6, sr1: 6, src: Src::Imm(-1) }));
            body.push(Item::I(MInstr::Str { sr: 7, base: 6, off: 0 }));
        }
        let traps_before = g.info.traps;
        let nb = 1 + g.t.pick(4);
        for _ in 0..nb {
            g.snippet(&mut body, k + 1, &[], false);
        }
        if leaf {
            if g.cfg.allow_io && g.info.traps == traps_before {
                g.io(&mut body);
            }
            if g.info.traps > traps_before {
                g.info.trap_in_leaf_without_r7_spill = true;
            }
        } else {
            body.push(Item::I(MInstr::Ldr { dr: 7, base: 6, off: 0 }));
            body.push(Item::I(MInstr::Add { dr: 6, sr1: 6, src: Src::Imm(1) }));
        }
        body.push(Item::I(MInstr::Jmp { base: 7 }));
        g.items.extend(body);
    }
    let data = std::mem::take(&mut g.data);
    g.items.extend(data);

    // two-pass placement
    let origin = 0x3000u16;
    let mut addr_of = vec![0u16; g.nlabels];
    let mut a = origin;
    for it in &g.items {
        match it {
            Item::Label(l) => addr_of[*l] = a,
            _ => a = a.wrapping_add(1),
        }
    }
    let mut words = vec![];
    let mut listing = vec![];
    let mut a = origin;
    let fits = |d: i32, bits: u32| d >= -(1 << (bits - 1)) && d < (1 << (bits - 1));
    for it in &g.items {
        let pc1 = a.wrapping_add(1);
        let off = |l: usize| addr_of[l] as i32 - pc1 as i32;
        let m = match it {
            Item::Label(l) => {
                listing.push(format!("L{l}:"));
                continue;
            }
            Item::Word(w) => {
                words.push(*w);
                listing.push(format!("x{a:04X}  .fill x{w:04X}"));
                a = a.wrapping_add(1);
                continue;
            }
            Item::AddrOf(l) => {
                words.push(addr_of[*l]);
                listing.push(format!("x{a:04X}  .fill L{l}"));
                a = a.wrapping_add(1);
                continue;
            }
            Item::I(m) => *m,
            Item::Br(cc, l) => {
                if !fits(off(*l), 9) {
                    return None;
                }
                MInstr::Br { cc: *cc, off: off(*l) as i16 }
            }
            Item::Jsr(l) => {
                if !fits(off(*l), 11) {
                    return None;
                }
                MInstr::Jsr { off: off(*l) as i16 }
            }
            Item::Ld(r, l) | Item::St(r, l) | Item::Ldi(r, l) | Item::Sti(r, l) | Item::Lea(r, l) => {
                if !fits(off(*l), 9) {
                    return None;
                }
                let o = off(*l) as i16;
                match it {
                    Item::Ld(..) => MInstr::Ld { dr: *r, off: o },
                    Item::St(..) => MInstr::St { sr: *r, off: o },
                    Item::Ldi(..) => MInstr::Ldi { dr: *r, off: o },
                    Item::Sti(..) => MInstr::Sti { sr: *r, off: o },
                    _ => MInstr::Lea { dr: *r, off: o },
                }
            }
        };
        words.push(isa::enc(&m));
        listing.push(format!("x{a:04X}  {m:?}"));
        a = a.wrapping_add(1);
    }
    // input traps inside loops and subroutines execute more often than they occur in the text:
    // supply a queue that is long enough for every dynamic execution
    if g.info.io_in > 0 {
        // (filled from one tape value through an LCG so that the tape is not used up)
        let mut x = g.t.raw() | 1;
        while g.kbd.len() < 600 {
            x = x.wrapping_mul(1664525).wrapping_add(1013904223);
            g.kbd.push((x >> 24) as u8);
        }
    }
    let subs = g.sub_labels.iter().map(|l| addr_of[*l]).collect();
    Some(ExecProg { origin, words, kbd: g.kbd, ending, info: g.info, subs, listing })
}
