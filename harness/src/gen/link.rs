//! Generator of sets of 2-4 small source files that share a label pool:
//! definitions, `.external` declarations + `.fill` uses, conflicting definitions,
//! touching / overlapping / identical-origin blocks.

use crate::model::asm::{asm_model, AsmOut};
use crate::model::stmt::*;
use crate::tape::Tape;
use lc3_ensemble::asm::{assemble, assemble_debug, ObjectFile};
use std::collections::{BTreeMap, BTreeSet};

#[derive(Clone, Debug)]
pub struct SrcFile {
    pub prog: Vec<MStmt>,
    pub rendered: Rendered,
    pub model: AsmOut,
}

#[derive(Clone, Copy, Debug)]
pub struct LinkCfg {
    pub max_files: usize,
    /// probability (x/8) that a file reuses a name already defined by another file
    pub conflict_8: u32,
    /// allow cross-file block overlap
    pub overlaps: bool,
    pub wild_render: bool,
}

fn small_stmt(t: &mut Tape) -> MKind {
    match t.pick(8) {
        0 => MKind::Add(t.pick(8) as u8, t.pick(8) as u8, Src2::Imm(t.range(-16, 15) as i32)),
        1 => MKind::Fill(Opnd::Num(t.range(0, 65535) as i32)),
        2 => MKind::Blkw(1 + t.pick(3) as i32),
        3 => MKind::Stringz(["", "a", "hi", "x\"y"][t.pick(4)].to_string()),
        4 => MKind::Halt,
        5 => MKind::Not(t.pick(8) as u8, t.pick(8) as u8),
        6 => MKind::Ret,
        _ => MKind::Nop(None),
    }
}

/// Generates the files; every file is individually well-formed (checked with the model).
pub fn gen_link_set(t: &mut Tape, cfg: &LinkCfg) -> Vec<SrcFile> {
    let nfiles = 2 + t.pick(cfg.max_files - 1);
    let npool = 3 + t.pick(6);
    let pool = gen_label_pool(t, npool);
    let mut defined_by: BTreeMap<String, usize> = BTreeMap::new();
    let mut files = vec![];
    // address grid: origins base + 8*k so that overlaps / touching happen when asked for
    let mut used_slots: BTreeSet<i64> = BTreeSet::new();
    // base of the grid: usually x3000; x0000 makes address 0 a definition address (the placeholder address of
    // external labels), xFD00 puts blocks next to the I/O page (files that reach into it are dropped below)
    let base: i64 = [0x3000, 0x0000, 0xFD00][t.weighted(&[5, 2, 1])];
    // two files may define one label at the same address: the label on the `.end` of a block of file 0 and on the
    // first word of a block of file 1 that touches it
    let shared = t.chance(1, 8);
    let mut shared_at: Option<i32> = None;
    for fi in 0..nfiles {
        let nblocks = 1 + t.pick(2);
        let mut prog: Vec<MStmt> = vec![];
        let mut defs: Vec<String> = vec![];
        let mut exts: Vec<String> = vec![];
        // which names does this file define / declare external
        for name in &pool {
            match defined_by.get(name) {
                Some(_) => {
                    if t.chance(cfg.conflict_8, 8) {
                        defs.push(name.clone()); // (possibly conflicting) second definition
                    } else if t.chance(1, 2) {
                        exts.push(name.clone());
                    }
                }
                None => match t.pick(4) {
                    0 => {
                        defs.push(name.clone());
                        defined_by.insert(name.clone(), fi);
                    }
                    1 => exts.push(name.clone()),
                    _ => {}
                },
            }
        }
        // external declarations: before / between / after
        let mut ext_pos: Vec<(usize, String)> = exts.iter().map(|e| (t.pick(nblocks + 1), e.clone())).collect();
        let mut defs_left = defs.clone();
        for bi in 0..nblocks {
            for (_, e) in ext_pos.iter().filter(|(p, _)| *p == bi) {
                prog.push(MStmt { labels: vec![], kind: MKind::External(flip_case(t, e)) });
            }
            let n = 1 + t.pick(6);
            let mut body: Vec<MStmt> = vec![];
            for _ in 0..n {
                let mut labels = vec![];
                if !defs_left.is_empty() && t.chance(1, 2) {
                    labels.push(defs_left.remove(t.pick(defs_left.len())));
                }
                let usable: Vec<&String> = defs.iter().chain(exts.iter()).collect();
                let kind = if !usable.is_empty() && t.chance(2, 5) {
                    let l = usable[t.pick(usable.len())].clone();
                    MKind::Fill(Opnd::Lab(flip_case(t, &l)))
                } else {
                    small_stmt(t)
                };
                body.push(MStmt { labels, kind });
            }
            if bi + 1 == nblocks {
                // all remaining definitions go on extra .fill statements
                for d in defs_left.drain(..) {
                    body.push(MStmt { labels: vec![d], kind: MKind::Fill(Opnd::Num(1)) });
                }
            }
            let len: i64 = body.iter().map(|s| s.kind.size() as i64).sum();
            // origin
            let span = ((len + 7) / 8).max(1);
            let mut slot = t.pick(24) as i64;
            let clash = |s: i64, used: &BTreeSet<i64>| (s..s + span).any(|x| used.contains(&x));
            if clash(slot, &used_slots) && !(cfg.overlaps && t.chance(1, 6)) {
                // first free slot (never loops on an exhausted tape)
                slot = (0..4096).find(|s| !clash(*s, &used_slots)).unwrap_or(4096);
            }
            for x in slot..slot + span {
                used_slots.insert(x);
            }
            let mut origin = base + 8 * slot;
            if cfg.overlaps && t.chance(1, 8) {
                origin += t.range(-3, 3);
            }
            prog.push(MStmt { labels: vec![], kind: MKind::Orig(origin.max(0) as i32) });
            prog.extend(body);
            prog.push(MStmt { labels: vec![], kind: MKind::End });
        }
        for (_, e) in ext_pos.drain(..).filter(|(p, _)| *p == nblocks) {
            prog.push(MStmt { labels: vec![], kind: MKind::External(flip_case(t, &e)) });
        }
        if shared && fi == 0 {
            prog.push(MStmt { labels: vec![], kind: MKind::Orig(0xE800) });
            let mut len = 0;
            for _ in 0..1 + t.pick(3) {
                let k = small_stmt(t);
                len += k.size() as i32;
                prog.push(MStmt { labels: vec![], kind: k });
            }
            prog.push(MStmt { labels: vec!["ZZSHARED".into()], kind: MKind::End });
            shared_at = Some(0xE800 + len);
        } else if let (true, 1, Some(at)) = (shared, fi, shared_at) {
            prog.push(MStmt { labels: vec![], kind: MKind::Orig(at) });
            prog.push(MStmt { labels: vec![flip_case(t, "ZZSHARED")], kind: MKind::Fill(Opnd::Num(1)) });
            prog.push(MStmt { labels: vec![], kind: MKind::End });
        }
        let model = asm_model(&prog);
        if !model.ok() {
            // e.g. two blocks of one file overlap: drop the file
            continue;
        }
        let rendered = render(&prog, t, RenderOpts { plain: !cfg.wild_render, wild_comments: cfg.wild_render });
        files.push(SrcFile { prog, rendered, model });
    }
    files
}

pub fn build_obj(f: &SrcFile, debug: bool) -> Result<ObjectFile, String> {
    let real = to_real_all(&f.prog, &f.rendered.layout).ok_or("unconstructible program")?;
    if debug {
        assemble_debug(real, &f.rendered.text).map_err(|e| format!("assemble_debug failed: {:?}", e.kind))
    } else {
        assemble(real).map_err(|e| format!("assemble failed: {:?}", e.kind))
    }
}

/// Model of linking a set of files (order independent).
#[derive(Clone, Debug, PartialEq, Eq)]
pub struct LinkModel {
    pub ok: bool,
    pub image: BTreeMap<u16, Option<u16>>,
    /// upper name -> (addr, external)
    pub labels: BTreeMap<String, (u16, bool)>,
    /// (address, label) still waiting for a definition
    pub pending: BTreeSet<(u16, String)>,
    pub resolved: usize,
}

pub fn link_model(files: &[&AsmOut]) -> LinkModel {
    let mut ok = true;
    // block disjointness across files
    for (i, a) in files.iter().enumerate() {
        for b in &files[i + 1..] {
            for &(s1, l1) in &a.blocks {
                for &(s2, l2) in &b.blocks {
                    if s1 < s2 + l2 && s2 < s1 + l1 {
                        ok = false;
                    }
                }
            }
        }
    }
    // labels
    let mut labels: BTreeMap<String, (u16, bool)> = BTreeMap::new();
    for f in files {
        for (n, info) in &f.labels {
            match labels.get(n).copied() {
                None => {
                    labels.insert(n.clone(), (info.addr, info.external));
                }
                Some((addr, ext)) => match (ext, info.external) {
                    (true, true) => {}
                    (true, false) => {
                        labels.insert(n.clone(), (info.addr, false));
                    }
                    (false, true) => {}
                    (false, false) => {
                        if addr != info.addr {
                            ok = false;
                        }
                    }
                },
            }
        }
    }
    let mut image = BTreeMap::new();
    let mut pending = BTreeSet::new();
    let mut resolved = 0;
    for f in files {
        for (a, w) in &f.image {
            image.insert(*a, *w);
        }
    }
    for f in files {
        for (a, l) in &f.relocs {
            match labels.get(l) {
                Some((addr, false)) => {
                    image.insert(*a, Some(*addr));
                    resolved += 1;
                }
                _ => {
                    pending.insert((*a, l.clone()));
                }
            }
        }
    }
    LinkModel { ok, image, labels, pending, resolved }
}
